#!/usr/bin/env python3
"""Regenerate /verif/MANIFEST.json from the table below (kept in one place so the manifest, the plan in
simctl.py and DESIGN.md stay consistent)."""
import json, os, sys
ROOT = os.path.dirname(os.path.dirname(os.path.abspath(__file__)))
sys.path.insert(0, ROOT)
import simctl

TECH = ("deterministic simulation with fault injection: seeded histories of API calls on 1-4 caller threads, the simulator "
        "choosing who runs each call (engine G, native, one fresh process per run) and miri's seeded pre-emptive scheduler "
        "inside calls (engine M); faults = caught panics, short / dirty / unaligned / uninitialised reused output buffers, a reused "
        "input line buffer with stale bytes after the slice, worker-thread death, calls made from a thread-local destructor during "
        "thread exit and from a destructor while the thread unwinds from the caller's own panic, calls made from the process panic hook while a library call is panicking, worker threads with a 32 KiB stack, re-issued inputs with one middle digit changed, an "
        "allocator that refuses during parse calls, contended first use, options rebuilt at the same address or through the deprecated "
        "setters, repeated calls; oracle = refinement against a "
        "stateless reference model; every failure is a minimised, exactly replayable trace")

COMMON_NOTE = ("Trusted: rustc/miri, Rust core's float FromStr/Display (reference), the simulator's own reference model (schoolbook "
               "integers, exact dyadic midpoints cross-checked against core on every use). Assumes x86_64-linux, 64-bit usize. On the "
               "pinned tree the library has no cross-call or cross-thread state, so the schedule/history dimension is degenerate there; "
               "the input dimension is a seeded workload, not an enumeration — a clean run is not evidence about inputs the workload did "
               "not draw (DESIGN.md §0a, §7).")

# what the oracle asserts per property, in the simulator's terms
WHAT = {
    "C01": "every decimal parse::<f32|f64>/parse_partial call in every explored history returns the bits Rust core's correctly rounded FromStr returns (and, for constructed exact midpoints / just-above / just-below strings of up to ~770 digits, the value known by construction)",
    "C02": "every decimal float write in every explored history produces a well-formed numeral that Rust core parses back to the identical bits (sign of zero included) with at most 17/9 significant digits; in non-compact builds the digit string and decimal exponent must additionally be those of Rust core's shortest round-tripping form (shortest, and closest among shortest; an exact tie between two candidates is accepted either way; the one listed exception, a shorter decimal lying exactly on an end of the rounding interval, is a known finding decided with exact arithmetic)",
    "C03": "every integer write (12 types, radix 2..36 in radix builds) in every explored history produces exactly the schoolbook canonical numeral, as a prefix of the caller's buffer",
    "C04": "every integer parse/parse_partial (12 types, radix 2..36) in every explored history returns exactly what a left-to-right reference scan with exact range checking returns, including error kind and index (Empty vs InvalidDigit is accepted either way when no digit follows the sign and other bytes do — the property text is ambiguous there), and returns the same with the multi-digit optimisation switched on; inputs are sub-slices of a reused line buffer whose tail still holds earlier records",
    "C05": "every non-decimal float parse of (a) an exactly representable input (mantissa and scale both < 2^53/2^24, so the true result is one IEEE operation; eleven radices) and (b) an integer lying exactly on, one below or one above the midpoint of two adjacent floats, hundreds of digits long, in radices 2, 4, 16, 3 and 5 (the value known by construction) returns exactly that value; other radices' near-tie inputs and mixed-base formats are not generated because the unchanged tree is already wrong there",
    "C06": "every power-of-two-radix float write — default options, and one in five with custom exponent breaks forcing positional or exponent notation into a buffer of exactly buffer_size_const bytes — is well formed, denotes exactly the written value (the numeral is evaluated with big-integer arithmetic, independently of the library's parser: no digit rounded or dropped) and re-parses, in the same format, to the identical bits; hex-float formats with a different exponent base are not generated",
    "C07": "every generic-radix float write (radices 3,5,7,11,20,36; default options; all normal values except the outermost binades) is well formed, is accepted by the parser of the same format and re-parses within 2048/256 ULP; integers below 2^53 / 2^24 (one write in six) must be written exactly, checked by evaluating the numeral with big-integer arithmetic",
    "C08": "every full-buffer write in every explored history is accepted in full by the complete parser of the same format and parses back to the written value (bit-exact for integers, decimal and power-of-two-radix floats, signed zeros, infinities; NaN as NaN)",
    "C09": "no write with a buffer of the documented size panics (a panic of the allocating facade on a valid call counts too: it sizes its buffer at the documented bound itself); no write — full, short, or panicking — disturbs the 64 canary bytes either side of the caller's slice; the returned slice is a prefix within the bound; under engine M any out-of-slice access is an interpreter error. Buffers: FORMATTED_SIZE / FORMATTED_SIZE_DECIMAL with default options, and exactly buffer_size_const with eight exponent-break pairs and nine max_significant_digits values (min_significant_digits and combinations are not exercised: the unchanged tree already panics at the documented bound for some of those)",
    "C10": "no parse entry point panics or kills its thread on any generated byte string (number alphabet, junk bytes, exponents of any size including ones within a few units of the 16-, 32- and 64-bit limits combined with long zero runs, long digit runs), in an overflow-checking debug-assertion build; every consumed count and error index is <= input length; under engine M any out-of-bounds read is an interpreter error",
    "C11": "complete Ok(v) iff partial Ok((v, len)); partial Ok((v, n)), 0 < n < len, implies complete(first n bytes) = Ok(v) — for integers (all radices), decimal floats, decimal floats with custom NaN strings (shorter and longer than \"infinity\") and custom infinity strings, and radix floats including radix-32/36 inputs whose digits spell \"inf\", \"nan\" or \"infinity\"",
    "C15": "nan/inf/infinity strings (case-insensitive, optional sign) parse to the special value exactly when Rust core accepts them and near-misses are rejected (including look-alikes whose letters have bit 7 set: an input that spells no special string is never accepted as NaN or infinity, by the complete or the partial parser); no numeric input yields NaN; NaN is written 'NaN', infinities 'inf'/'-inf', -0.0 round-trips; writing a special whose string is disabled panics (through lexical_core and through the facade, also when the call is made while the thread is unwinding); a custom NaN string the builder accepts is written verbatim; with custom NaN or short/long infinity strings configured, exactly those strings (any case, optional sign) are accepted; all on inputs that are sub-slices of a reused line buffer",
    "C16": "the same seeded decimal-only history, run in each build (std, no-std, power-of-two, radix+format, compact, ...), produces identical per-call results for every parse (bits, count, error kind and index) and every integer write, and identical float-write bytes in all non-compact builds",
    "C17": "lexical::to_string / to_string_with_options return exactly the bytes lexical_core::write* produced for the same value in the same history, lexical::parse returns exactly what lexical_core::parse returns, and every written byte is ASCII (including custom NaN strings the options builder accepts); this includes writes with exponent-break and digit-limit options, where the facade formats into a fresh zeroed buffer and the core into the caller's reused, possibly dirty one",
    "C19": "for every decimal float parse in every explored history, the lossy option accepts/rejects identically with identical counts and errors, and a finite lossy result is within one ULP of the exact one; zeros unchanged",
}

NA = {
    "C12": "Not claimed. The content is an acceptance predicate over (18 syntax flags x input strings); each flag set is a separate compile-time monomorphisation and nothing about it meets a schedule, history or fault. The parser engine those formats share is exercised — for schedule/history independence only — by the C01/C04/C10/C11 checks under the STANDARD and from_radix formats (DESIGN.md §4 C12, §7.4)",
    "C13": "Not claimed. A metamorphic relation over digit-separator flag combinations x inputs of a pure parser; no schedule, history or fault dimension, and the simulator's workload contains no separator formats (DESIGN.md §4 C13, §7.4)",
    "C14": "Not claimed. Output as a function of (value, min/max digits, break points, round mode, trim): a value x option-tuple space. The simulator only uses default write options; custom option sets also hit pre-existing panics at the documented bound that the property file itself cites (DESIGN.md §4 C14, §7.4)",
    "C18": "Not claimed. Total const-fn predicates over a packed u128 and small structs, evaluated largely at compile time: a bit-vector enumeration/SAT question with no run-time behaviour to simulate. (The one run-time probe the simulator has — custom NaN strings through the options builder — is used for C15/C17, not as a decision of C18.) (DESIGN.md §4 C18, §7.4)",
}

def main():
    checks = []
    for pid in sorted(simctl.PLAN):
        q = simctl.PLAN[pid]["q"]
        t = simctl.PLAN[pid]["t"]
        def budget(pl):
            g = ", ".join("%s x %d" % (v, n) for v, n in pl.get("gated", []))
            c = pl.get("cross")
            m = pl.get("miri")
            parts = []
            if g: parts.append("engine G runs: " + g)
            if c: parts.append("cross-build: %d decimal-only histories in each of %s" % (c[1], "/".join(c[0])))
            if m: parts.append("engine M: %d workloads x %d miri schedules (%s build)" % (m[1], m[2], m[0]))
            return "; ".join(parts)
        checks.append(dict(
            property_id=pid,
            quick_cmd="python3 simctl.py check %s --tier quick" % pid,
            thorough_cmd="python3 simctl.py check %s --tier thorough" % pid,
            evidence_file="evidence/%s.json" % pid,
            replay_cmd_template="python3 simctl.py replay {path}",
            engine="lexsim",
            level_claimed=dict(
                category="exploration",
                text=("Seeded search over caller-thread schedules, call histories and injected faults; NOT a decision of the property over its "
                      "input space. What is asserted on every explored run: " + WHAT[pid] + ". Quick: " + budget(q) + ". Thorough: " + budget(t) +
                      ". This is the right (and only) level this technique family has for a library whose only environment is its callers: it "
                      "catches changes that make results depend on which thread ran first, what a thread did before, what a reused buffer held "
                      "or whether an earlier call panicked, plus whatever input-triggered breakage the seeded workload happens to draw."),
                design_ref="DESIGN.md §7, §8"),
            level_note=COMMON_NOTE,
            technique=TECH,
        ))
    old = json.load(open(os.path.join(ROOT, "MANIFEST.json")))
    na = []
    for pid in sorted(NA):
        na.append(dict(property_id=pid, reason=NA[pid]))
    man = dict(
        version=1,
        setup_cmd="python3 simctl.py setup",
        hooks=dict(
            guard="alexhuszagh_rust_lexical_verif",
            enable="n/a - no hooks were added to /repo (name reserved: RUSTFLAGS='--cfg alexhuszagh_rust_lexical_verif'); the simulator links the unmodified crates as path dependencies",
            baseline_off_cmd="cd /repo && cargo test --workspace --no-fail-fast --offline",
            source_commits=[],
            add_only=True),
        engines=[dict(name="lexsim", path="sim/", serves_properties=sorted(simctl.PLAN),
                      kind_free_text="deterministic simulator of caller threads, call histories, reused buffers and caught panics (engine G: native, "
                                     "op-granular seeded scheduler, one process per run; engine M: the same workloads under miri's seeded pre-emptive "
                                     "scheduler); stateless reference model as oracle; driver simctl.py")],
        checks=checks,
        not_applicable=na,
        notes=("Technique family fixed by the brief: deterministic simulation with fault injection. rust-lexical as pinned is a set of pure functions "
               "with no cross-call state, so what the simulator can decide is narrow and is stated per check; see DESIGN.md §0a for why checks exist "
               "at all (independent sub-agents, asked for changes triggered by something outside one call's arguments, all produced realistic state-introducing changes that only a schedule/history/fault search catches) and §7-§8 for what they do and which "
               "seeded changes they catch. One genuine defect found by the checks was repaired in /repo (commit 'fix: negative non-decimal floats "
               "panic in debug builds…'); six more (C11 sign-then-non-digit partial parse; C01/C16 compact near-halfway rounding; C09 compact digit-limit "
               "debug assertion; C05 rare radix-3/5 near-tie misrounding; C07 generic-radix writer emitting a digit equal to the radix; C02 output not shortest when the shorter decimal is exactly an end of the rounding interval) are recorded in "
               "known_findings.json. 124 independently written property-breaking changes are kept under seeded/ with the "
               "result of running the checks against each (DESIGN.md §8). audit/ remains as a supporting premise audit (not a check)."),
    )
    json.dump(man, open(os.path.join(ROOT, "MANIFEST.json"), "w"), indent=1)
    print("wrote MANIFEST.json with %d checks, %d not_applicable" % (len(checks), len(na)))

main()
