#!/bin/bash
# Confirm a staged seeded change: applies, existing suite passes with it, demo fails with it and
# passes without it.  Usage: verify_seeded.sh <dir with patch.diff, demo/, demo_cmd.txt> <A|B>
# Works in ONE scratch worktree (/tmp/vw, removed at the end); never touches /repo's tree.
set -u
SRC=$(realpath "$1"); K=$2; NAME=$(basename "$SRC")
WT=/tmp/vw-$NAME
export CARGO_NET_OFFLINE=true CARGO_TARGET_DIR=/tmp/vw-target-$NAME
rm -rf "$WT"; git -C /repo worktree prune; git -C /repo worktree add --detach -q "$WT" HEAD || exit 2
trap 'git -C /repo worktree remove --force "$WT" 2>/dev/null; rm -rf "$CARGO_TARGET_DIR"' EXIT
mkdir -p "$WT/OUT/$K"; cp -r "$SRC/demo" "$WT/OUT/$K/demo"
DEMO=$(cat "$SRC/demo_cmd.txt")
cd "$WT"
run_demo() { ( cd "$WT"; eval "$DEMO" ) > "$SRC/verify_demo_$1.log" 2>&1; echo $?; }
r_clean=$(run_demo without)
git apply "$SRC/patch.diff" || { echo "$NAME apply=FAIL"; exit 2; }
cargo test --workspace --no-fail-fast --offline -j 8 > "$SRC/verify_suite_with.log" 2>&1; r_suite=$?
nok=$(grep -c '^test result: ok' "$SRC/verify_suite_with.log"); nfail=$(grep -c '^test result: FAILED' "$SRC/verify_suite_with.log")
r_with=$(run_demo with)
git checkout -- . ; git clean -fdq -e OUT
echo "$NAME suite_with_change_exit=$r_suite ok_blocks=$nok failed_blocks=$nfail demo_without_exit=$r_clean demo_with_exit=$r_with"
