#!/bin/bash
# seeded_matrix.sh <seeded-id> <PROP> [<PROP> ...] — run checks against one seeded change in a scratch
# worktree of /repo (never in /repo itself); prints one line per check; removes the worktree and its
# build output afterwards.
set -u
id=$1; shift
V=${VERIF_HOME:-/verif}   # which copy of the machinery judges the change (a frozen snapshot, say)
S=/verif/seeded/$id
WT=/tmp/mx${MX_SUFFIX:-}-$id
git -C /repo worktree prune
rm -rf "$WT"; git -C /repo worktree add --detach -q "$WT" HEAD || exit 2
git -C "$WT" apply "$S/patch.diff" || { echo "$id: patch does not apply"; git -C /repo worktree remove --force "$WT"; exit 2; }
tag=$(VERIF_REPO=$WT $V/sim/mkvariant.py --tag)
for p in "$@"; do
  t0=$(date +%s)
  out=$(cd $V && VERIF_REPO=$WT VERIF_EVIDENCE_DIR=/tmp/mx${MX_SUFFIX:-}-evidence-$id python3 simctl.py check $p --tier ${TIER:-quick} 2>&1); rc=$?
  t1=$(date +%s)
  v=$(echo "$out" | grep -E '^(VIOLATION|violation|HARNESS-ERROR)' | head -3 | tr '\n' ' ' | cut -c1-600)
  echo "$id check=$p exit=$rc secs=$((t1-t0)) $v"
done
git -C /repo worktree remove --force "$WT"
rm -rf $V/sim/target/$tag $V/sim/build/$tag /tmp/mx${MX_SUFFIX:-}-evidence-$id
