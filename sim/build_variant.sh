#!/bin/bash
# build_variant.sh <variant> [release|miri-check]  — builds lexsim for one variant from $VERIF_REPO (default /repo)
set -e
here=$(cd "$(dirname "$0")" && pwd)
v=$1
d=$("$here/mkvariant.py" "$v")
export CARGO_NET_OFFLINE=true LEXSIM_VARIANT=$v
tag=$("$here/mkvariant.py" --tag)
export CARGO_TARGET_DIR=$here/target/$tag/$v
mkdir -p "$here/target/$tag"
cd "$d"
cargo build --release --offline -q 2>"$CARGO_TARGET_DIR.buildlog" || { cat "$CARGO_TARGET_DIR.buildlog" >&2; exit 2; }
echo "$CARGO_TARGET_DIR/release/lexsim-${v//_/-}"
