//! The one PRNG every choice in a run derives from (xoshiro256** seeded through splitmix64).
#[derive(Clone)]
pub struct Rng {
    s: [u64; 4],
}

fn splitmix(x: &mut u64) -> u64 {
    *x = x.wrapping_add(0x9E37_79B9_7F4A_7C15);
    let mut z = *x;
    z = (z ^ (z >> 30)).wrapping_mul(0xBF58_476D_1CE4_E5B9);
    z = (z ^ (z >> 27)).wrapping_mul(0x94D0_49BB_1331_11EB);
    z ^ (z >> 31)
}

impl Rng {
    pub fn new(seed: u64) -> Rng {
        let mut x = seed;
        Rng {
            s: [splitmix(&mut x), splitmix(&mut x), splitmix(&mut x), splitmix(&mut x)],
        }
    }
    /// Independent stream derived from this seed and a label (so that adding a draw in one
    /// place does not shift every later choice).
    pub fn fork(seed: u64, label: u64) -> Rng {
        Rng::new(seed ^ label.wrapping_mul(0xD6E8_FEB8_6659_FD93).rotate_left(17))
    }
    pub fn next_u64(&mut self) -> u64 {
        let r = self.s[1].wrapping_mul(5).rotate_left(7).wrapping_mul(9);
        let t = self.s[1] << 17;
        self.s[2] ^= self.s[0];
        self.s[3] ^= self.s[1];
        self.s[1] ^= self.s[2];
        self.s[0] ^= self.s[3];
        self.s[2] ^= t;
        self.s[3] = self.s[3].rotate_left(45);
        r
    }
    pub fn next_u128(&mut self) -> u128 {
        ((self.next_u64() as u128) << 64) | self.next_u64() as u128
    }
    /// Uniform in 0..n (n > 0).
    pub fn below(&mut self, n: u64) -> u64 {
        debug_assert!(n > 0);
        // multiply-shift; bias is irrelevant here
        ((self.next_u64() as u128 * n as u128) >> 64) as u64
    }
    pub fn range(&mut self, lo: i64, hi_incl: i64) -> i64 {
        lo + self.below((hi_incl - lo + 1) as u64) as i64
    }
    pub fn chance(&mut self, num: u64, den: u64) -> bool {
        self.below(den) < num
    }
    pub fn pick<'a, T>(&mut self, xs: &'a [T]) -> &'a T {
        &xs[self.below(xs.len() as u64) as usize]
    }
}
