//! lexsim — deterministic simulation of rust-lexical's only environment: caller threads, their call
//! histories, the buffers they reuse and the panics they catch.  See /verif/DESIGN.md.
//!
//!   lexsim gated  --seed S --focus Cxx [--decimal-only] [--small] [--fault-free] [--print-trace]
//!   lexsim replay <trace>                     (re-executes a gated history exactly)
//!   lexsim free   --seed S --focus Cxx --threads W --ops N [--small]      (meant to run under miri)
//!   lexsim free-replay <trace>
//!
//! Every command prints exactly one JSON object on the last line of stdout.
//! Exit status: 0 no violation, 1 violation(s), 2 harness error.

mod gen;
mod ops;

#[global_allocator]
static GLOBAL: ops::SimAlloc = ops::SimAlloc;
mod refmodel;
mod rng;

use std::collections::BTreeMap;
use std::sync::mpsc::{channel, Receiver, Sender};
use std::sync::{Arc, Barrier, Mutex};
use std::thread::JoinHandle;

use gen::*;
use ops::*;

fn jstr(s: &str) -> String {
    let mut o = String::with_capacity(s.len() + 2);
    o.push('"');
    for c in s.chars() {
        match c {
            '"' => o.push_str("\\\""),
            '\\' => o.push_str("\\\\"),
            '\n' => o.push_str("\\n"),
            '\r' => o.push_str("\\r"),
            '\t' => o.push_str("\\t"),
            c if (c as u32) < 0x20 => o.push_str(&format!("\\u{:04x}", c as u32)),
            c => o.push(c),
        }
    }
    o.push('"');
    o
}

fn fnv(h: &mut u64, bytes: &[u8]) {
    for &b in bytes {
        *h ^= b as u64;
        *h = h.wrapping_mul(0x100_0000_01b3);
    }
}

#[derive(Default)]
struct Stats {
    ops: BTreeMap<&'static str, u64>,
    faults: BTreeMap<&'static str, u64>,
    /// hash of the op-level schedule (sequence of thread ids) — identifies the interleaving
    sched_hash: u64,
    /// transcript hashes of the default decimal API (cross-build comparison)
    h_parse_and_int: u64,
    h_float_write: u64,
    thread_switches: u64,
    first_uses: u64,
    contended_first_uses: u64,
    repeated_calls: u64,
    /// (op, outcome) of every default-decimal-API call, kept only on request (cross-build diff)
    keep_records: bool,
    records: Vec<(String, String)>,
}

struct Found {
    index: usize,
    thread: usize,
    prop: String,
    msg: String,
    op: String,
    tag: String,
    enc: String,
}

struct Report {
    stats: Stats,
    found: Vec<Found>,
    events: usize,
    threads: usize,
}

enum Cmd {
    Exec(Op),
    Poison(u8),
    Exit,
    /// exit, and make this call from the caller's thread-local destructor while exiting
    ExitCall(Op),
    /// make this call from a destructor that runs while the worker unwinds from its own panic
    UnwindCall(Op),
}

/// The caller's own guard object: its destructor runs during unwinding and calls the library.
struct UnwindGuard<'a> {
    op: &'a Op,
    arena: &'a mut Arena,
    slot: &'a mut Option<OpResult>,
    was_panicking: &'a mut bool,
}

impl Drop for UnwindGuard<'_> {
    fn drop(&mut self) {
        *self.was_panicking = std::thread::panicking();
        let op = self.op;
        let arena = &mut *self.arena;
        let r = std::panic::catch_unwind(std::panic::AssertUnwindSafe(|| exec(op, arena)));
        *self.slot = Some(match r {
            Ok(r) => r,
            Err(_) => {
                let mut o = OpResult::default();
                o.caught_panic = true;
                o.record = "panic".into();
                o.violations.push(Violation {
                    prop: "C10",
                    msg: "the call panicked outside the library's documented panic points while the thread was unwinding".into(),
                    tag: "",
                });
                o
            },
        });
    }
}

struct CallerPanic;

fn exec_unwinding(op: &Op, arena: &mut Arena) -> OpResult {
    let mut slot = None;
    let mut was_panicking = false;
    let r = std::panic::catch_unwind(std::panic::AssertUnwindSafe(|| {
        let _g = UnwindGuard {
            op,
            arena,
            slot: &mut slot,
            was_panicking: &mut was_panicking,
        };
        std::panic::panic_any(CallerPanic);
    }));
    if r.is_ok() || !was_panicking {
        panic!("HARNESS: the unwinding call was not made while unwinding");
    }
    slot.expect("HARNESS: the unwinding call left no result")
}

/// The caller's own per-thread object with a destructor ("flush my stats when the thread ends").
/// Every worker touches it before its first library call, so it is registered first and destroyed last.
struct ExitHook {
    job: Option<(Op, Sender<OpResult>)>,
}

impl Drop for ExitHook {
    fn drop(&mut self) {
        if let Some((op, tx)) = self.job.take() {
            let r = std::panic::catch_unwind(std::panic::AssertUnwindSafe(|| {
                let mut arena = Arena::new();
                exec(&op, &mut arena)
            }));
            let r = match r {
                Ok(r) => r,
                Err(_) => {
                    let mut o = OpResult::default();
                    o.caught_panic = true;
                    o.record = "panic".into();
                    o.violations.push(Violation {
                        prop: "C10",
                        msg: "the call panicked outside the library's documented panic points while the thread was exiting".into(),
                        tag: "",
                    });
                    o
                },
            };
            let _ = tx.send(r);
        }
    }
}

thread_local! {
    static EXIT_HOOK: std::cell::RefCell<ExitHook> = std::cell::RefCell::new(ExitHook { job: None });
}

struct Worker {
    tx: Sender<Cmd>,
    rx: Receiver<OpResult>,
    handle: JoinHandle<()>,
}

fn spawn_worker() -> Worker {
    let (tx, crx) = channel::<Cmd>();
    let (rtx, rx) = channel::<OpResult>();
    let mut b = std::thread::Builder::new();
    let kb = ops::SMALL_STACK_KB.load(std::sync::atomic::Ordering::Relaxed);
    if kb != 0 {
        b = b.stack_size(kb * 1024);
    }
    let handle = b.spawn(move || {
        EXIT_HOOK.with(|h| h.borrow_mut().job = None); // first touch: before any library call
        let mut arena = Arena::new();
        while let Ok(cmd) = crx.recv() {
            match cmd {
                Cmd::ExitCall(op) => {
                    let tx = rtx.clone();
                    EXIT_HOOK.with(|h| h.borrow_mut().job = Some((op, tx)));
                    break;
                },
                Cmd::Exec(op) => {
                    let r = exec(&op, &mut arena);
                    if rtx.send(r).is_err() {
                        break;
                    }
                },
                Cmd::Poison(p) => {
                    arena.poison(p);
                    if rtx.send(OpResult::default()).is_err() {
                        break;
                    }
                },
                Cmd::UnwindCall(op) => {
                    let r = exec_unwinding(&op, &mut arena);
                    if rtx.send(r).is_err() {
                        break;
                    }
                },
                Cmd::Exit => break,
            }
        }
    })
    .expect("HARNESS: cannot spawn a worker");
    Worker {
        tx,
        rx,
        handle,
    }
}

fn first_use_key(op: &Op) -> String {
    match op {
        Op::WInt {
            ty,
            radix,
            ..
        } => format!("wi/{}/{}", ty.name(), radix),
        Op::PInt {
            ty,
            radix,
            ..
        } => format!("pi/{}/{}", ty.name(), radix),
        Op::PFloat {
            ty,
            ..
        } => format!("pf/{}", ty.name()),
        Op::WFloat {
            ty,
            ..
        } => format!("wf/{}", ty.name()),
        Op::WFloatR {
            ty,
            radix,
            ..
        } => format!("wfr/{}/{}", ty.name(), radix),
        Op::PFloatR {
            ty,
            radix,
            ..
        } => format!("pfr/{}/{}", ty.name(), radix),
        Op::WSpecialOff {
            ty,
            ..
        } => format!("wso/{}", ty.name()),
        Op::WNanCustom {
            ty,
            ..
        } => format!("wnc/{}", ty.name()),
        Op::WFloatBreaks {
            ty,
            idx,
            ..
        } => format!("wfb/{}/{}", ty.name(), idx),
        Op::PNanCustom {
            ty,
            idx,
            ..
        } => format!("pnc/{}/{}", ty.name(), idx),
        Op::PInfCustom {
            ty,
            idx,
            ..
        } => format!("pic/{}/{}", ty.name(), idx),
        Op::WFloatDigits {
            ty,
            max,
            ..
        } => format!("wfd/{}/{}", ty.name(), max),
    }
}

/// Properties a "same call, different answer" observation violates, by call kind.
fn repeat_props(op: &Op) -> Vec<&'static str> {
    match op {
        Op::WInt {
            short: None,
            ..
        } => vec!["C03"],
        Op::PInt {
            ..
        } => vec!["C04", "C11"],
        Op::PFloat {
            ..
        } => vec!["C01", "C11"],
        Op::WFloat {
            short: None,
            ..
        } => vec!["C02"],
        Op::WFloatR {
            radix,
            ..
        } => vec![if radix.is_power_of_two() {
            "C06"
        } else {
            "C07"
        }],
        Op::PFloatR {
            ..
        } => vec!["C05", "C11"],
        Op::PNanCustom {
            ..
        }
        | Op::PInfCustom {
            ..
        }
        | Op::WNanCustom {
            ..
        } => vec!["C15"],
        // the same value with the same options written twice, whatever the reused buffer held
        Op::WFloatDigits {
            ..
        } => vec!["C17"],
        Op::WFloatBreaks {
            ..
        } => vec!["C02"],
        // short-buffer writes may legitimately panic or succeed; their record is "panic" or the bytes,
        // deterministic per call, but they are not value claims of any property
        _ => vec![],
    }
}

fn account(stats: &mut Stats, op: &Op, res: &OpResult) {
    *stats.ops.entry(op.kind()).or_insert(0) += 1;
    if res.caught_panic {
        *stats.faults.entry("caught_panic").or_insert(0) += 1;
    }
    if matches!(
        op,
        Op::WInt {
            short: Some(_),
            ..
        } | Op::WFloat {
            short: Some(_),
            ..
        }
    ) {
        *stats.faults.entry("short_buffer").or_insert(0) += 1;
    }
    let decimal_api = match op {
        Op::WInt {
            radix: 10,
            short: None,
            ..
        }
        | Op::PInt {
            radix: 10,
            ..
        }
        | Op::PFloat {
            ..
        } => Some(false),
        Op::WFloat {
            short: None,
            ..
        } => Some(true),
        _ => None,
    };
    if stats.keep_records && decimal_api.is_some() {
        stats.records.push((op.encode(), res.record.clone()));
    }
    match decimal_api {
        Some(false) => {
            fnv(&mut stats.h_parse_and_int, op.encode().as_bytes());
            fnv(&mut stats.h_parse_and_int, res.record.as_bytes());
        },
        Some(true) => {
            fnv(&mut stats.h_float_write, op.encode().as_bytes());
            fnv(&mut stats.h_float_write, res.record.as_bytes());
        },
        None => {},
    }
}

/// Engine G: real threads, but exactly one runs at a time and the simulator says which.
fn run_gated(events: &[Event], keep_records: bool) -> Report {
    let threads = events
        .iter()
        .map(|e| match e {
            Event::Exec {
                t,
                ..
            }
            | Event::Kill {
                t,
            }
            | Event::Poison {
                t,
                ..
            }
            | Event::ExitCall {
                t,
                ..
            }
            | Event::UnwindCall {
                t,
                ..
            } => *t,
        })
        .max()
        .map_or(0, |m| m + 1);
    let mut workers: Vec<Option<Worker>> = (0..threads).map(|_| None).collect();
    let mut stats = Stats {
        sched_hash: 0xcbf2_9ce4_8422_2325,
        h_parse_and_int: 0xcbf2_9ce4_8422_2325,
        h_float_write: 0xcbf2_9ce4_8422_2325,
        keep_records,
        ..Default::default()
    };
    let mut found = Vec::new();
    let mut last_t: Option<usize> = None;
    let mut seen_keys: BTreeMap<String, usize> = BTreeMap::new();
    let mut first_answer: BTreeMap<String, (usize, String)> = BTreeMap::new();
    for (i, ev) in events.iter().enumerate() {
        match ev {
            Event::Kill {
                t,
            } => {
                if let Some(w) = workers[*t].take() {
                    let _ = w.tx.send(Cmd::Exit);
                    let _ = w.handle.join();
                    *stats.faults.entry("thread_death").or_insert(0) += 1;
                }
                fnv(&mut stats.sched_hash, &[0xfe, *t as u8]);
            },
            Event::ExitCall {
                t,
                op,
            } => {
                // the worker exits; its last call happens inside the caller's thread-local destructor
                let w = workers[*t].take().unwrap_or_else(spawn_worker);
                w.tx.send(Cmd::ExitCall(op.clone())).expect("HARNESS: worker gone");
                let _ = w.handle.join();
                *stats.faults.entry("call_during_thread_exit").or_insert(0) += 1;
                fnv(&mut stats.sched_hash, &[0xfc, *t as u8]);
                match w.rx.try_recv() {
                    Ok(res) => {
                        account(&mut stats, op, &res);
                        for v in res.violations {
                            found.push(Found {
                                index: i,
                                thread: *t,
                                prop: v.prop.to_string(),
                                msg: format!("(call made from a thread-local destructor during thread exit) {}", v.msg),
                                op: op.describe(),
                                tag: v.tag.to_string(),
                                enc: op.encode(),
                            });
                        }
                    },
                    Err(_) => found.push(Found {
                        index: i,
                        thread: *t,
                        prop: "C10".into(),
                        msg: "the call made during thread exit never returned a result (the thread was torn down)".into(),
                        op: op.describe(),
                        tag: String::new(),
                        enc: op.encode(),
                    }),
                }
            },
            Event::UnwindCall {
                t,
                op,
            } => {
                let w = workers[*t].get_or_insert_with(spawn_worker);
                w.tx.send(Cmd::UnwindCall(op.clone())).expect("HARNESS: worker gone");
                *stats.faults.entry("call_during_unwinding").or_insert(0) += 1;
                fnv(&mut stats.sched_hash, &[0xfb, *t as u8]);
                match w.rx.recv() {
                    Ok(res) => {
                        account(&mut stats, op, &res);
                        // the same call made elsewhere in the run, unwinding or not, has the same answer
                        let enc = op.encode();
                        match first_answer.get(&enc) {
                            None => {
                                first_answer.insert(enc.clone(), (i, res.record.clone()));
                            },
                            Some((j, rec)) => {
                                stats.repeated_calls += 1;
                                if *rec != res.record {
                                    for prop in repeat_props(op) {
                                        found.push(Found {
                                            index: i,
                                            thread: *t,
                                            prop: prop.to_string(),
                                            msg: format!(
                                                "the same call returned \"{}\" at event {} and \"{}\" at event {} of this run (made from a destructor while the thread was unwinding)",
                                                rec, j, res.record, i
                                            ),
                                            op: op.describe(),
                                            tag: String::new(),
                                            enc: enc.clone(),
                                        });
                                    }
                                }
                            },
                        }
                        for v in res.violations {
                            found.push(Found {
                                index: i,
                                thread: *t,
                                prop: v.prop.to_string(),
                                msg: format!("(call made from a destructor while the thread was unwinding from the caller's own panic) {}", v.msg),
                                op: op.describe(),
                                tag: v.tag.to_string(),
                                enc: op.encode(),
                            });
                        }
                    },
                    Err(_) => {
                        found.push(Found {
                            index: i,
                            thread: *t,
                            prop: "C10".into(),
                            msg: "worker thread died during a call made while unwinding".into(),
                            op: op.describe(),
                            tag: String::new(),
                            enc: op.encode(),
                        });
                        workers[*t] = None;
                    },
                }
            },
            Event::Poison {
                t,
                pat,
            } => {
                let w = workers[*t].get_or_insert_with(spawn_worker);
                w.tx.send(Cmd::Poison(*pat)).expect("HARNESS: worker gone");
                w.rx.recv().expect("HARNESS: worker died");
                *stats.faults.entry("dirty_buffer").or_insert(0) += 1;
                fnv(&mut stats.sched_hash, &[0xfd, *t as u8]);
            },
            Event::Exec {
                t,
                op,
            } => {
                if last_t.is_some() && last_t != Some(*t) {
                    stats.thread_switches += 1;
                }
                last_t = Some(*t);
                let key = first_use_key(op);
                match seen_keys.get(&key) {
                    None => {
                        stats.first_uses += 1;
                        seen_keys.insert(key, *t);
                    },
                    Some(_) => {},
                }
                let w = workers[*t].get_or_insert_with(spawn_worker);
                w.tx.send(Cmd::Exec(op.clone())).expect("HARNESS: worker gone");
                let res = match w.rx.recv() {
                    Ok(r) => r,
                    Err(_) => {
                        // the worker died outside catch_unwind: the library aborted the thread
                        found.push(Found {
                            index: i,
                            thread: *t,
                            prop: "C10".into(),
                            msg: "worker thread died during the call (uncaught unwinding or abort)".into(),
                            op: op.describe(),
                            tag: String::new(),
                            enc: op.encode(),
                        });
                        workers[*t] = None;
                        continue;
                    },
                };
                fnv(&mut stats.sched_hash, &[*t as u8]);
                account(&mut stats, op, &res);
                // history oracle: the same call, whenever and wherever it is made in a run, has one answer
                let enc = op.encode();
                match first_answer.get(&enc) {
                    None => {
                        first_answer.insert(enc.clone(), (i, res.record.clone()));
                    },
                    Some((j, rec)) => {
                        stats.repeated_calls += 1;
                        if *rec != res.record {
                            for prop in repeat_props(op) {
                                found.push(Found {
                                    index: i,
                                    thread: *t,
                                    prop: prop.to_string(),
                                    msg: format!(
                                        "the same call returned \"{}\" at event {} and \"{}\" at event {} of this run",
                                        rec, j, res.record, i
                                    ),
                                    op: op.describe(),
                                    tag: String::new(),
                                    enc: enc.clone(),
                                });
                            }
                        }
                    },
                }
                for v in res.violations {
                    found.push(Found {
                        index: i,
                        thread: *t,
                        prop: v.prop.to_string(),
                        msg: v.msg,
                        op: op.describe(),
                        tag: v.tag.to_string(),
                        enc: op.encode(),
                    });
                }
            },
        }
    }
    for w in workers.into_iter().flatten() {
        let _ = w.tx.send(Cmd::Exit);
        let _ = w.handle.join();
    }
    let hook = ops::take_hook_findings();
    if hook.0 > 0 {
        *stats.faults.entry("calls_from_panic_hook").or_insert(0) += hook.0;
    }
    for msg in hook.1 {
        for prop in ["C15", "C17", "C02"] {
            found.push(Found {
                index: events.len(),
                thread: 0,
                prop: prop.to_string(),
                msg: format!("(call made from the caller's panic hook while a library call was panicking) {}", msg),
                op: "(panic hook)".into(),
                tag: String::new(),
                enc: String::new(),
            });
        }
    }
    Report {
        stats,
        found,
        events: events.len(),
        threads,
    }
}

/// Engine M: workers run their lists freely from a barrier; the scheduler (miri's, seeded) decides
/// every pre-emption.  Only deterministic when run under miri.
fn run_free(lists: &[Vec<Op>], lite: bool) -> Report {
    let threads = lists.len();
    let barrier = Arc::new(Barrier::new(threads));
    let shared: Arc<Mutex<(Stats, Vec<Found>)>> = Arc::new(Mutex::new((
        Stats {
            sched_hash: 0xcbf2_9ce4_8422_2325,
            h_parse_and_int: 0xcbf2_9ce4_8422_2325,
            h_float_write: 0xcbf2_9ce4_8422_2325,
            ..Default::default()
        },
        Vec::new(),
    )));
    let mut first_keys: BTreeMap<String, usize> = BTreeMap::new();
    for l in lists {
        if let Some(op) = l.first() {
            *first_keys.entry(first_use_key(op)).or_insert(0) += 1;
        }
    }
    let contended = first_keys.values().filter(|&&n| n > 1).count() as u64;
    let mut handles = Vec::new();
    let mut exit_results: Vec<(usize, Option<Op>, Receiver<OpResult>)> = Vec::new();
    for (t, list) in lists.iter().cloned().enumerate() {
        let barrier = barrier.clone();
        let shared = shared.clone();
        let (xtx, xrx) = channel::<OpResult>();
        exit_results.push((t, list.last().cloned(), xrx));
        handles.push(std::thread::spawn(move || {
            EXIT_HOOK.with(|h| h.borrow_mut().job = None); // first touch: before any library call
            let mut arena = Arena::new();
            barrier.wait();
            // odd-numbered workers make their last call from the caller's thread-local destructor
            let in_hook = t % 2 == 1 && list.len() >= 2;
            let n_inline = if in_hook {
                list.len() - 1
            } else {
                list.len()
            };
            if in_hook {
                let op = list[list.len() - 1].clone();
                EXIT_HOOK.with(|h| h.borrow_mut().job = Some((op, xtx)));
            }
            for (i, op) in list.iter().take(n_inline).enumerate() {
                let res = exec_mode(op, &mut arena, lite);
                // completion order across threads is the observable interleaving
                let mut g = shared.lock().unwrap();
                fnv(&mut g.0.sched_hash, &[t as u8]);
                account(&mut g.0, op, &res);
                for v in res.violations {
                    g.1.push(Found {
                        index: i,
                        thread: t,
                        prop: v.prop.to_string(),
                        msg: v.msg,
                        op: op.describe(),
                        tag: v.tag.to_string(),
                        enc: op.encode(),
                    });
                }
            }
        }));
    }
    let mut died = Vec::new();
    for (t, h) in handles.into_iter().enumerate() {
        if h.join().is_err() {
            died.push(t);
        }
    }
    let (mut stats, mut found) = match Arc::try_unwrap(shared) {
        Ok(m) => m.into_inner().unwrap_or_else(|e| e.into_inner()),
        Err(_) => panic!("HARNESS: shared state still referenced"),
    };
    for (t, op, rx) in exit_results {
        if let (Ok(res), Some(op)) = (rx.try_recv(), op) {
            *stats.faults.entry("call_during_thread_exit").or_insert(0) += 1;
            account(&mut stats, &op, &res);
            for v in res.violations {
                found.push(Found {
                    index: 0,
                    thread: t,
                    prop: v.prop.to_string(),
                    msg: format!("(call made from a thread-local destructor during thread exit) {}", v.msg),
                    op: op.describe(),
                    tag: v.tag.to_string(),
                    enc: op.encode(),
                });
            }
        }
    }
    for t in died {
        found.push(Found {
            index: 0,
            thread: t,
            prop: "C10".into(),
            msg: "worker thread died (uncaught unwinding)".into(),
            op: String::new(),
            tag: String::new(),
            enc: String::new(),
        });
    }
    stats.contended_first_uses = contended;
    Report {
        stats,
        found,
        events: lists.iter().map(|l| l.len()).sum(),
        threads,
    }
}

fn map_json(m: &BTreeMap<&'static str, u64>) -> String {
    let parts: Vec<String> = m.iter().map(|(k, v)| format!("{}:{}", jstr(k), v)).collect();
    format!("{{{}}}", parts.join(","))
}

fn emit(mode: &str, seed: u64, focus: &str, rep: &Report, trace: Option<&[String]>) -> i32 {
    let harness = rep.found.iter().any(|f| f.prop == "HARNESS");
    let viols: Vec<String> = rep
        .found
        .iter()
        .map(|f| {
            format!(
                "{{\"index\":{},\"thread\":{},\"prop\":{},\"tag\":{},\"op\":{},\"enc\":{},\"msg\":{}}}",
                f.index,
                f.thread,
                jstr(&f.prop),
                jstr(&f.tag),
                jstr(&f.op),
                jstr(&f.enc),
                jstr(&f.msg)
            )
        })
        .collect();
    let trace_json = match trace {
        Some(t) => format!("[{}]", t.iter().map(|l| jstr(l)).collect::<Vec<_>>().join(",")),
        None => "null".to_string(),
    };
    println!(
        "{{\"mode\":{},\"variant\":{},\"seed\":{},\"focus\":{},\"events\":{},\"threads\":{},\"ops\":{},\"faults\":{},\"thread_switches\":{},\"first_uses\":{},\"contended_first_uses\":{},\"repeated_calls\":{},\"alloc_faults\":{},\"swarm\":{},\"sched_hash\":\"{:016x}\",\"h_parse_and_int\":\"{:016x}\",\"h_float_write\":\"{:016x}\",\"violations\":[{}],\"records\":{},\"trace\":{}}}",
        jstr(mode),
        jstr(variant()),
        seed,
        jstr(focus),
        rep.events,
        rep.threads,
        map_json(&rep.stats.ops),
        map_json(&rep.stats.faults),
        rep.stats.thread_switches,
        rep.stats.first_uses,
        rep.stats.contended_first_uses,
        rep.stats.repeated_calls,
        ops::ALLOC_FAULTS.load(std::sync::atomic::Ordering::Relaxed) as u8,
        jstr(&swarm_header()),
        rep.stats.sched_hash,
        rep.stats.h_parse_and_int,
        rep.stats.h_float_write,
        viols.join(","),
        if rep.stats.keep_records {
            format!(
                "[{}]",
                rep.stats.records.iter().map(|(a, b)| format!("[{},{}]", jstr(a), jstr(b))).collect::<Vec<_>>().join(",")
            )
        } else {
            "null".to_string()
        },
        trace_json
    );
    if harness {
        2
    } else if rep.found.is_empty() {
        0
    } else {
        1
    }
}

/// Run-level fault settings, in the form they take in a replay file's header.
fn swarm_header() -> String {
    format!(
        "alloc_faults={} small_stack_kb={} hook_calls={}",
        ops::ALLOC_FAULTS.load(std::sync::atomic::Ordering::Relaxed) as u8,
        ops::SMALL_STACK_KB.load(std::sync::atomic::Ordering::Relaxed),
        ops::HOOK_CALLS.load(std::sync::atomic::Ordering::Relaxed) as u8
    )
}

fn variant() -> &'static str {
    option_env!("LEXSIM_VARIANT").unwrap_or("unknown")
}

struct Args {
    seed: u64,
    focus: String,
    flags: GenFlags,
    threads: usize,
    ops: usize,
    print_trace: bool,
    lite: bool,
    records: bool,
    file: Option<String>,
    stack_kb: Option<usize>,
}

fn parse_args(a: &[String]) -> Args {
    let mut out = Args {
        seed: 0,
        focus: "all".into(),
        flags: GenFlags {
            decimal_only: false,
            small: false,
            fault_free: false,
        },
        threads: 3,
        ops: 8,
        print_trace: false,
        lite: false,
        records: false,
        file: None,
        stack_kb: None,
    };
    let mut i = 0;
    while i < a.len() {
        match a[i].as_str() {
            "--seed" => {
                i += 1;
                out.seed = a[i].parse().expect("HARNESS: bad --seed");
            },
            "--focus" => {
                i += 1;
                out.focus = a[i].clone();
            },
            "--threads" => {
                i += 1;
                out.threads = a[i].parse().expect("HARNESS: bad --threads");
            },
            "--ops" => {
                i += 1;
                out.ops = a[i].parse().expect("HARNESS: bad --ops");
            },
            "--decimal-only" => out.flags.decimal_only = true,
            "--small" => out.flags.small = true,
            "--fault-free" => out.flags.fault_free = true,
            "--print-trace" => out.print_trace = true,
            "--lite" => out.lite = true,
            "--alloc-faults" => ops::ALLOC_FAULTS.store(true, std::sync::atomic::Ordering::Relaxed),
            "--uninit" => ops::UNINIT_BUFFERS.store(true, std::sync::atomic::Ordering::Relaxed),
            "--stack-kb" => {
                // development aid: force a worker stack size (0 = the platform default) whatever the swarm says
                i += 1;
                out.stack_kb = Some(a[i].parse().expect("HARNESS: bad --stack-kb"));
            },
            "--records" => out.records = true,
            other if other == "-" || !other.starts_with("--") => out.file = Some(other.to_string()),
            other => {
                eprintln!("HARNESS: unknown argument {}", other);
                std::process::exit(2);
            },
        }
        i += 1;
    }
    if !FOCI.contains(&out.focus.as_str()) {
        eprintln!("HARNESS: unknown focus {}", out.focus);
        std::process::exit(2);
    }
    out
}

fn read_trace(path: &str) -> (BTreeMap<String, String>, Vec<Event>) {
    // "-" = standard input.  Under the interpreter the trace always comes this way, so that the program's
    // arguments — and with them the amount of work done before the workers start, which shifts the
    // interpreter's scheduling decisions — do not depend on where the file happens to be stored.
    let text = if path == "-" {
        let mut s = String::new();
        std::io::Read::read_to_string(&mut std::io::stdin(), &mut s).unwrap_or_else(|e| {
            eprintln!("HARNESS: cannot read standard input: {}", e);
            std::process::exit(2);
        });
        s
    } else {
        std::fs::read_to_string(path).unwrap_or_else(|e| {
            eprintln!("HARNESS: cannot read {}: {}", path, e);
            std::process::exit(2);
        })
    };
    let mut hdr = BTreeMap::new();
    let mut ev = Vec::new();
    for line in text.lines() {
        let line = line.trim();
        if line.is_empty() {
            continue;
        }
        if let Some(h) = line.strip_prefix('#') {
            for kv in h.split_whitespace() {
                if let Some((k, v)) = kv.split_once('=') {
                    hdr.insert(k.to_string(), v.to_string());
                }
            }
            continue;
        }
        match Event::decode(line) {
            Some(e) => ev.push(e),
            None => {
                eprintln!("HARNESS: bad trace line: {}", line);
                std::process::exit(2);
            },
        }
    }
    (hdr, ev)
}

fn main() {
    // the library's own documented panics are caught by the simulated callers; keep stderr quiet
    std::panic::set_hook(Box::new(|info| {
        let s = info.to_string();
        if s.contains("HARNESS") {
            eprintln!("{}", s);
        }
        // the caller's panic hook formats a few numbers for its log line through the library — on the
        // panicking thread, before unwinding starts, while the library's own frames (and whatever they
        // hold) are still live.  Off unless the run's swarm says so.
        if ops::HOOK_CALLS.load(std::sync::atomic::Ordering::Relaxed) {
            ops::calls_from_panic_hook();
        }
    }));
    let argv: Vec<String> = std::env::args().collect();
    if argv.len() < 2 {
        eprintln!("usage: lexsim gated|replay|free|free-replay|info ...");
        std::process::exit(2);
    }
    let args = parse_args(&argv[2..]);
    let code = match argv[1].as_str() {
        "info" => {
            println!(
                "{{\"variant\":{},\"radices\":{:?},\"float_radices\":{:?},\"compact\":{}}}",
                jstr(variant()),
                available_radices(),
                float_radices(),
                is_compact()
            );
            0
        },
        "gated" => {
            let sw = swarm(args.seed, &args.focus, &args.flags);
            if sw.alloc_faults {
                ops::ALLOC_FAULTS.store(true, std::sync::atomic::Ordering::Relaxed);
            }
            if sw.small_stack {
                ops::SMALL_STACK_KB.store(ops::SMALL_STACK_DEFAULT_KB, std::sync::atomic::Ordering::Relaxed);
            }
            if sw.hook_calls {
                ops::HOOK_CALLS.store(true, std::sync::atomic::Ordering::Relaxed);
            }
            if let Some(kb) = args.stack_kb {
                ops::SMALL_STACK_KB.store(kb, std::sync::atomic::Ordering::Relaxed);
            }
            let events = gen_history(args.seed, &sw);
            let lines: Vec<String> = events.iter().map(|e| e.encode()).collect();
            if args.print_trace {
                // run-level fault settings first: they are part of the replay file's header
                println!("#SWARM {}", swarm_header());
                for l in &lines {
                    println!("{}", l);
                }
            }
            let rep = run_gated(&events, args.records);
            let need_trace = !rep.found.is_empty();
            emit(
                "gated",
                args.seed,
                &args.focus,
                &rep,
                if need_trace {
                    Some(&lines)
                } else {
                    None
                },
            )
        },
        "replay" => {
            let (hdr, events) = read_trace(args.file.as_deref().expect("HARNESS: trace file"));
            if hdr.get("alloc_faults").map(|s| s.as_str()) == Some("1") {
                ops::ALLOC_FAULTS.store(true, std::sync::atomic::Ordering::Relaxed);
            }
            if let Some(kb) = hdr.get("small_stack_kb").and_then(|s| s.parse::<usize>().ok()) {
                ops::SMALL_STACK_KB.store(kb, std::sync::atomic::Ordering::Relaxed);
            }
            if hdr.get("hook_calls").map(|s| s.as_str()) == Some("1") {
                ops::HOOK_CALLS.store(true, std::sync::atomic::Ordering::Relaxed);
            }
            if let Some(kb) = args.stack_kb {
                ops::SMALL_STACK_KB.store(kb, std::sync::atomic::Ordering::Relaxed);
            }
            let rep = run_gated(&events, args.records);
            let lines: Vec<String> = events.iter().map(|e| e.encode()).collect();
            emit(
                "replay",
                hdr.get("seed").and_then(|s| s.parse().ok()).unwrap_or(0),
                hdr.get("focus").map(|s| s.as_str()).unwrap_or("all"),
                &rep,
                Some(&lines),
            )
        },
        "gen-free" => {
            // print the free-running workload (expectations filled in) as a trace; nothing is run
            let mut flags = args.flags;
            flags.fault_free = false;
            let sw = swarm(args.seed, &args.focus, &flags);
            let lists = gen_free(args.seed, &sw, args.threads, args.ops);
            println!("# lexsim trace v1 mode=free variant={} seed={} focus={} threads={} ops={}", variant(), args.seed, args.focus, args.threads, args.ops);
            for (t, l) in lists.iter().enumerate() {
                for op in l {
                    let op = match op {
                        Op::PFloat {
                            ty,
                            text,
                            expect: None,
                        } => Op::PFloat {
                            ty: *ty,
                            text: text.clone(),
                            expect: std_expectation(*ty, text),
                        },
                        other => other.clone(),
                    };
                    println!(
                        "{}",
                        Event::Exec {
                            t,
                            op
                        }
                        .encode()
                    );
                }
            }
            std::process::exit(0);
        },
        "free" => {
            let mut flags = args.flags;
            flags.fault_free = false;
            let sw = swarm(args.seed, &args.focus, &flags);
            let lists = gen_free(args.seed, &sw, args.threads, args.ops);
            let lines: Vec<String> = lists
                .iter()
                .enumerate()
                .flat_map(|(t, l)| {
                    l.iter().map(move |op| {
                        Event::Exec {
                            t,
                            op: op.clone(),
                        }
                        .encode()
                    })
                })
                .collect();
            if args.print_trace {
                for l in &lines {
                    println!("{}", l);
                }
            }
            let rep = run_free(&lists, args.lite);
            let need_trace = !rep.found.is_empty();
            emit(
                "free",
                args.seed,
                &args.focus,
                &rep,
                if need_trace {
                    Some(&lines)
                } else {
                    None
                },
            )
        },
        "free-replay" => {
            let (hdr, events) = read_trace(args.file.as_deref().expect("HARNESS: trace file"));
            let threads = events
                .iter()
                .map(|e| match e {
                    Event::Exec {
                        t,
                        ..
                    }
                    | Event::ExitCall {
                        t,
                        ..
                    }
                    | Event::UnwindCall {
                        t,
                        ..
                    } => *t + 1,
                    _ => 0,
                })
                .max()
                .unwrap_or(0);
            let mut lists: Vec<Vec<Op>> = vec![Vec::new(); threads];
            for e in &events {
                if let Event::Exec {
                    t,
                    op,
                }
                | Event::ExitCall {
                    t,
                    op,
                }
                | Event::UnwindCall {
                    t,
                    op,
                } = e
                {
                    lists[*t].push(op.clone());
                }
            }
            let lists: Vec<Vec<Op>> = lists.into_iter().filter(|l| !l.is_empty()).collect();
            let rep = run_free(&lists, args.lite);
            let lines: Vec<String> = events.iter().map(|e| e.encode()).collect();
            emit(
                "free-replay",
                hdr.get("seed").and_then(|s| s.parse().ok()).unwrap_or(0),
                hdr.get("focus").map(|s| s.as_str()).unwrap_or("all"),
                &rep,
                Some(&lines),
            )
        },
        other => {
            eprintln!("HARNESS: unknown command {}", other);
            2
        },
    };
    std::process::exit(code);
}
