//! One simulated API call: its arguments, how it is executed against rust-lexical on the calling
//! worker's long-lived state, and what the stateless reference model says it must return.

use std::panic::{catch_unwind, AssertUnwindSafe};

use lexical_core::{
    FormattedSize, NumberFormatBuilder, ParseFloatOptions, ParseIntegerOptions, WriteFloatOptions,
    WriteIntegerOptions,
};

use crate::refmodel::*;

// ---------------------------------------------------------------------------------------------
// allocator fault: while a worker is inside a lexical_core *parse* call, the global allocator may be
// told to refuse (return null).  The parsers are documented as never panicking or aborting and, on the
// pinned tree, never allocate, so this is invisible there; code that starts allocating on a parse path
// turns an exhausted allocator into a process abort, which the driver reports.

pub struct SimAlloc;

thread_local! {
    static DENY_ALLOC: std::cell::Cell<bool> = const { std::cell::Cell::new(false) };
}
pub static ALLOC_FAULTS: std::sync::atomic::AtomicBool = std::sync::atomic::AtomicBool::new(false);
/// In this run the process's panic hook makes library calls (see `calls_from_panic_hook`).
pub static HOOK_CALLS: std::sync::atomic::AtomicBool = std::sync::atomic::AtomicBool::new(false);
static HOOK_COUNT: std::sync::atomic::AtomicU64 = std::sync::atomic::AtomicU64::new(0);
static HOOK_FINDINGS: std::sync::Mutex<Vec<String>> = std::sync::Mutex::new(Vec::new());

/// What a logging panic hook does: formats and parses a few ordinary values with default options.  Runs on
/// the panicking thread before unwinding.  A wrong answer is recorded; a panic in here aborts the process,
/// which the driver reports with the run's history.
pub fn calls_from_panic_hook() {
    HOOK_COUNT.fetch_add(1, std::sync::atomic::Ordering::Relaxed);
    let mut bad: Vec<String> = Vec::new();
    let mut buf = [0u8; 64];
    for (v, want) in [(f64::NAN, "NaN"), (f64::NEG_INFINITY, "-inf"), (-1.5f64, "-1.5"), (0.0f64, "0.0")] {
        let got = lexical_core::write(v, &mut buf);
        if got != want.as_bytes() {
            bad.push(format!("lexical_core::write({:?}) produced \"{}\"", v, show_text(got)));
        }
        let s = lexical::to_string(v);
        if s != want {
            bad.push(format!("lexical::to_string({:?}) returned \"{}\"", v, show_text(s.as_bytes())));
        }
    }
    let got = lexical_core::write(-12345i64, &mut buf);
    if got != b"-12345" {
        bad.push(format!("lexical_core::write(-12345i64) produced \"{}\"", show_text(got)));
    }
    match lexical_core::parse::<f64>(b"-inf") {
        Ok(v) if v == f64::NEG_INFINITY => {},
        r => bad.push(format!("parse::<f64>(\"-inf\") returned {:?}", r)),
    }
    match lexical_core::parse::<f64>(b"2.5e3") {
        Ok(v) if v == 2500.0 => {},
        r => bad.push(format!("parse::<f64>(\"2.5e3\") returned {:?}", r)),
    }
    if !bad.is_empty() {
        if let Ok(mut g) = HOOK_FINDINGS.lock() {
            g.extend(bad);
        }
    }
}

pub fn take_hook_findings() -> (u64, Vec<String>) {
    let n = HOOK_COUNT.swap(0, std::sync::atomic::Ordering::Relaxed);
    let v = HOOK_FINDINGS.lock().map(|mut g| std::mem::take(&mut *g)).unwrap_or_default();
    (n, v)
}

/// Stack size of the simulated caller threads in KiB; 0 = the platform default (2 MiB).
pub static SMALL_STACK_KB: std::sync::atomic::AtomicUsize = std::sync::atomic::AtomicUsize::new(0);
/// What a "small stack" run uses (a pool worker, an embedded RTOS task, a green thread): see DESIGN for how it was chosen.
pub const SMALL_STACK_DEFAULT_KB: usize = 32;

unsafe impl std::alloc::GlobalAlloc for SimAlloc {
    unsafe fn alloc(&self, layout: std::alloc::Layout) -> *mut u8 {
        if DENY_ALLOC.try_with(|d| d.get()).unwrap_or(false) {
            return std::ptr::null_mut();
        }
        std::alloc::System.alloc(layout)
    }
    unsafe fn dealloc(&self, ptr: *mut u8, layout: std::alloc::Layout) {
        std::alloc::System.dealloc(ptr, layout)
    }
    unsafe fn alloc_zeroed(&self, layout: std::alloc::Layout) -> *mut u8 {
        if DENY_ALLOC.try_with(|d| d.get()).unwrap_or(false) {
            return std::ptr::null_mut();
        }
        std::alloc::System.alloc_zeroed(layout)
    }
    unsafe fn realloc(&self, ptr: *mut u8, layout: std::alloc::Layout, new_size: usize) -> *mut u8 {
        if DENY_ALLOC.try_with(|d| d.get()).unwrap_or(false) {
            return std::ptr::null_mut();
        }
        std::alloc::System.realloc(ptr, layout, new_size)
    }
}

/// Run a library parse call with the allocator refusing (when this run has allocator faults enabled).
fn no_alloc<R>(f: impl FnOnce() -> R) -> R {
    if !ALLOC_FAULTS.load(std::sync::atomic::Ordering::Relaxed) {
        return f();
    }
    DENY_ALLOC.with(|d| d.set(true));
    let r = f();
    DENY_ALLOC.with(|d| d.set(false));
    r
}

// ---------------------------------------------------------------------------------------------
// the operation alphabet

#[derive(Clone, Debug, PartialEq)]
pub enum Op {
    /// write an integer; `short` = give a buffer of this length instead of the documented bound
    WInt {
        ty: IntTy,
        radix: u8,
        neg: bool,
        mag: u128,
        short: Option<usize>,
    },
    /// complete + partial integer parse
    PInt {
        ty: IntTy,
        radix: u8,
        text: Vec<u8>,
    },
    /// complete + partial decimal float parse (+ lossy variant); `expect` when known by construction
    PFloat {
        ty: FloatTy,
        text: Vec<u8>,
        expect: Option<u64>,
    },
    /// write a float in decimal
    WFloat {
        ty: FloatTy,
        bits: u64,
        short: Option<usize>,
    },
    /// write a float in a non-decimal radix and parse it back in the same format
    WFloatR {
        ty: FloatTy,
        radix: u8,
        bits: u64,
        /// index into BREAK_POOL: custom exponent breaks (forcing positional or exponent notation); None = defaults
        brk: Option<u8>,
    },
    /// parse an exactly representable non-decimal float
    PFloatR {
        ty: FloatTy,
        radix: u8,
        text: Vec<u8>,
        expect: u64,
    },
    /// write NaN (0) / inf (1) with that special string disabled: must panic, not emit bytes
    WSpecialOff {
        ty: FloatTy,
        which: u8,
    },
    /// decimal float write with custom exponent break points (pair `idx` of `BREAK_POOL`) into a buffer
    /// of exactly `buffer_size_const` bytes
    WFloatBreaks {
        ty: FloatTy,
        bits: u64,
        idx: u8,
    },
    /// parse `PNAN_TEXTS[text]` with the parser's NaN string set to `PNAN_POOL[idx]` (options built on
    /// the caller's stack, so successive calls reuse the same address with different contents)
    PNanCustom {
        ty: FloatTy,
        idx: u8,
        text: u8,
    },
    /// decimal float write with `max_significant_digits = max` (default break points) into a buffer of
    /// exactly `buffer_size_const` bytes
    WFloatDigits {
        ty: FloatTy,
        bits: u64,
        max: u8,
    },
    /// parse `PINF_TEXTS[text]` with the parser's short/long infinity strings set to `PINF_POOL[idx]`
    PInfCustom {
        ty: FloatTy,
        idx: u8,
        text: u8,
    },
    /// configure NaN string number `idx` of `NAN_POOL`; if the options builder accepts it, NaN must
    /// be written as exactly that string and the bytes must be ASCII
    WNanCustom {
        ty: FloatTy,
        idx: u8,
    },
}

/// (negative_exponent_break, positive_exponent_break) pairs for `WFloatBreaks`; no digit-count options
pub const BREAK_POOL: [(i32, i32); 8] = [(-5, 9), (-1, 1), (-20, 20), (-50, 50), (-100, 100), (-300, 300), (-320, 5), (-5, 308)];

/// valid custom NaN strings for the parser, and the texts tried against them
pub const PNAN_POOL: [&[u8]; 10] =
    [b"NaN", b"nan", b"nil", b"null", b"NAN", b"nAn", b"Nanana", b"n", b"NotANumber", b"nanQuietWithoutAnyPayloadWhatsoever"];
pub const PNAN_TEXTS: [&[u8]; 22] = [
    b"NaN", b"nan", b"nil", b"NIL", b"null", b"Null", b"nAn", b"Nanana", b"nanana", b"n", b"N", b"-nil", b"+null", b"ni", b"nulll",
    b"nanan", b"NotANumber", b"notanumber", b"-NOTANUMBER", b"NotANumbe", b"nanQuietWithoutAnyPayloadWhatsoever", b"NANQUIETWITHOUTANYPAYLOADWHATSOEVEr",
];

/// valid (inf_string, infinity_string) pairs for the parser (short no longer than long), and texts
pub const PINF_POOL: [(&[u8], &[u8]); 7] = [
    (b"inf", b"infinity"),
    (b"Inf", b"Infinity"),
    (b"i", b"infinite"),
    (b"inf", b"ieeeinfinity"),
    (b"in", b"ix"),
    (b"infty", b"infty"),
    (b"INF", b"INFINITE"),
];
pub const PINF_TEXTS: [&[u8]; 20] = [
    b"inf", b"infinity", b"Inf", b"INFINITY", b"i", b"infinite", b"ieeeinfinity", b"IEEEInfinity", b"in", b"ix", b"infty", b"-infty",
    b"+ieeeinfinity", b"-infinite", b"infinit", b"ieee", b"infx", b"-i", b"inff", b"+in",
];

pub const NAN_POOL: [&[u8]; 12] = [
    b"NaN", b"nan", b"NAN", b"N", b"nAn", b"Nanana", b"N\xc1", b"n\xe9n", b"\xffan", b"na\x80", b"N\xd0\x9d", b"n\xfa",
];

fn hex(b: &[u8]) -> String {
    let mut s = String::with_capacity(b.len() * 2 + 1);
    if b.is_empty() {
        s.push('-');
    }
    for x in b {
        s.push_str(&format!("{:02x}", x));
    }
    s
}

fn unhex(s: &str) -> Option<Vec<u8>> {
    if s == "-" {
        return Some(Vec::new());
    }
    if s.len() % 2 != 0 {
        return None;
    }
    (0..s.len() / 2).map(|i| u8::from_str_radix(&s[2 * i..2 * i + 2], 16).ok()).collect()
}

pub fn show_text(b: &[u8]) -> String {
    let mut s = String::new();
    for &c in b.iter().take(80) {
        if (0x20..0x7f).contains(&c) && c != b'"' && c != b'\\' {
            s.push(c as char);
        } else {
            s.push_str(&format!("\\x{:02x}", c));
        }
    }
    if b.len() > 80 {
        s.push_str(&format!("...({} bytes)", b.len()));
    }
    s
}

impl Op {
    pub fn kind(&self) -> &'static str {
        match self {
            Op::WInt {
                short: None,
                ..
            } => "WInt",
            Op::WInt {
                ..
            } => "WIntShort",
            Op::PInt {
                ..
            } => "PInt",
            Op::PFloat {
                ..
            } => "PFloat",
            Op::WFloat {
                short: None,
                ..
            } => "WFloat",
            Op::WFloat {
                ..
            } => "WFloatShort",
            Op::WFloatR {
                ..
            } => "WFloatR",
            Op::PFloatR {
                ..
            } => "PFloatR",
            Op::WSpecialOff {
                ..
            } => "WSpecialOff",
            Op::WNanCustom {
                ..
            } => "WNanCustom",
            Op::WFloatBreaks {
                ..
            } => "WFloatBreaks",
            Op::PNanCustom {
                ..
            } => "PNanCustom",
            Op::WFloatDigits {
                ..
            } => "WFloatDigits",
            Op::PInfCustom {
                ..
            } => "PInfCustom",
        }
    }

    /// One-line, lossless, whitespace-separated form used in replay files.
    pub fn encode(&self) -> String {
        let sh = |s: &Option<usize>| match s {
            Some(n) => format!("{}", n),
            None => "full".to_string(),
        };
        match self {
            Op::WInt {
                ty,
                radix,
                neg,
                mag,
                short,
            } => format!(
                "WInt {} {} {} {} {}",
                ty.name(),
                radix,
                if *neg {
                    "-"
                } else {
                    "+"
                },
                mag,
                sh(short)
            ),
            Op::PInt {
                ty,
                radix,
                text,
            } => format!("PInt {} {} {}", ty.name(), radix, hex(text)),
            Op::PFloat {
                ty,
                text,
                expect,
            } => format!(
                "PFloat {} {} {}",
                ty.name(),
                hex(text),
                match expect {
                    Some(b) => format!("{:x}", b),
                    None => "?".into(),
                }
            ),
            Op::WFloat {
                ty,
                bits,
                short,
            } => format!("WFloat {} {:x} {}", ty.name(), bits, sh(short)),
            Op::WFloatR {
                ty,
                radix,
                bits,
                brk,
            } => match brk {
                None => format!("WFloatR {} {} {:x}", ty.name(), radix, bits),
                Some(i) => format!("WFloatR {} {} {:x} b{}", ty.name(), radix, bits, i),
            },
            Op::PFloatR {
                ty,
                radix,
                text,
                expect,
            } => format!("PFloatR {} {} {} {:x}", ty.name(), radix, hex(text), expect),
            Op::WSpecialOff {
                ty,
                which,
            } => format!("WSpecialOff {} {}", ty.name(), which),
            Op::WNanCustom {
                ty,
                idx,
            } => format!("WNanCustom {} {}", ty.name(), idx),
            Op::WFloatBreaks {
                ty,
                bits,
                idx,
            } => format!("WFloatBreaks {} {:x} {}", ty.name(), bits, idx),
            Op::PNanCustom {
                ty,
                idx,
                text,
            } => format!("PNanCustom {} {} {}", ty.name(), idx, text),
            Op::WFloatDigits {
                ty,
                bits,
                max,
            } => format!("WFloatDigits {} {:x} {}", ty.name(), bits, max),
            Op::PInfCustom {
                ty,
                idx,
                text,
            } => format!("PInfCustom {} {} {}", ty.name(), idx, text),
        }
    }

    pub fn decode(s: &str) -> Option<Op> {
        let f: Vec<&str> = s.split_whitespace().collect();
        let sh = |s: &str| -> Option<Option<usize>> {
            if s == "full" {
                Some(None)
            } else {
                s.parse().ok().map(Some)
            }
        };
        match *f.first()? {
            "WInt" if f.len() == 6 => Some(Op::WInt {
                ty: IntTy::from_name(f[1])?,
                radix: f[2].parse().ok()?,
                neg: f[3] == "-",
                mag: f[4].parse().ok()?,
                short: sh(f[5])?,
            }),
            "PInt" if f.len() == 4 => Some(Op::PInt {
                ty: IntTy::from_name(f[1])?,
                radix: f[2].parse().ok()?,
                text: unhex(f[3])?,
            }),
            "PFloat" if f.len() == 4 => Some(Op::PFloat {
                ty: FloatTy::from_name(f[1])?,
                text: unhex(f[2])?,
                expect: if f[3] == "?" {
                    None
                } else {
                    Some(u64::from_str_radix(f[3], 16).ok()?)
                },
            }),
            "WFloat" if f.len() == 4 => Some(Op::WFloat {
                ty: FloatTy::from_name(f[1])?,
                bits: u64::from_str_radix(f[2], 16).ok()?,
                short: sh(f[3])?,
            }),
            "WFloatR" if f.len() == 4 || f.len() == 5 => Some(Op::WFloatR {
                ty: FloatTy::from_name(f[1])?,
                radix: f[2].parse().ok()?,
                bits: u64::from_str_radix(f[3], 16).ok()?,
                brk: if f.len() == 5 {
                    Some(f[4].strip_prefix('b')?.parse::<u8>().ok().filter(|i| (*i as usize) < BREAK_POOL.len())?)
                } else {
                    None
                },
            }),
            "PFloatR" if f.len() == 5 => Some(Op::PFloatR {
                ty: FloatTy::from_name(f[1])?,
                radix: f[2].parse().ok()?,
                text: unhex(f[3])?,
                expect: u64::from_str_radix(f[4], 16).ok()?,
            }),
            "WSpecialOff" if f.len() == 3 => Some(Op::WSpecialOff {
                ty: FloatTy::from_name(f[1])?,
                which: f[2].parse().ok()?,
            }),
            "WFloatDigits" if f.len() == 4 => Some(Op::WFloatDigits {
                ty: FloatTy::from_name(f[1])?,
                bits: u64::from_str_radix(f[2], 16).ok()?,
                max: f[3].parse::<u8>().ok().filter(|m| *m >= 1)?,
            }),
            "PInfCustom" if f.len() == 4 => Some(Op::PInfCustom {
                ty: FloatTy::from_name(f[1])?,
                idx: f[2].parse::<u8>().ok().filter(|i| (*i as usize) < PINF_POOL.len())?,
                text: f[3].parse::<u8>().ok().filter(|i| (*i as usize) < PINF_TEXTS.len())?,
            }),
            "PNanCustom" if f.len() == 4 => Some(Op::PNanCustom {
                ty: FloatTy::from_name(f[1])?,
                idx: f[2].parse::<u8>().ok().filter(|i| (*i as usize) < PNAN_POOL.len())?,
                text: f[3].parse::<u8>().ok().filter(|i| (*i as usize) < PNAN_TEXTS.len())?,
            }),
            "WFloatBreaks" if f.len() == 4 => Some(Op::WFloatBreaks {
                ty: FloatTy::from_name(f[1])?,
                bits: u64::from_str_radix(f[2], 16).ok()?,
                idx: f[3].parse::<u8>().ok().filter(|i| (*i as usize) < BREAK_POOL.len())?,
            }),
            "WNanCustom" if f.len() == 3 => Some(Op::WNanCustom {
                ty: FloatTy::from_name(f[1])?,
                idx: f[2].parse::<u8>().ok().filter(|i| (*i as usize) < NAN_POOL.len())?,
            }),
            _ => None,
        }
    }

    /// Human-readable form for reports.
    pub fn describe(&self) -> String {
        match self {
            Op::WInt {
                ty,
                radix,
                neg,
                mag,
                short,
            } => format!(
                "write::<{}>({}{}) radix {}{}",
                ty.name(),
                if *neg {
                    "-"
                } else {
                    ""
                },
                mag,
                radix,
                match short {
                    Some(n) => format!(" into a {}-byte buffer", n),
                    None => String::new(),
                }
            ),
            Op::PInt {
                ty,
                radix,
                text,
            } => format!("parse::<{}>(\"{}\") radix {}", ty.name(), show_text(text), radix),
            Op::PFloat {
                ty,
                text,
                ..
            } => format!("parse::<{}>(\"{}\")", ty.name(), show_text(text)),
            Op::WFloat {
                ty,
                bits,
                short,
            } => format!(
                "write::<{}>(bits {:#x}){}",
                ty.name(),
                bits,
                match short {
                    Some(n) => format!(" into a {}-byte buffer", n),
                    None => String::new(),
                }
            ),
            Op::WFloatR {
                ty,
                radix,
                bits,
                brk,
            } => format!(
                "write::<{}>(bits {:#x}) radix {}{} then parse back",
                ty.name(),
                bits,
                radix,
                match brk {
                    Some(i) => format!(" with exponent breaks {:?} into a buffer_size_const buffer", BREAK_POOL[*i as usize]),
                    None => String::new(),
                }
            ),
            Op::PFloatR {
                ty,
                radix,
                text,
                ..
            } => format!("parse::<{}>(\"{}\") radix {}", ty.name(), show_text(text), radix),
            Op::WSpecialOff {
                ty,
                which,
            } => format!(
                "write::<{}>({}) with that special string disabled",
                ty.name(),
                if *which == 0 {
                    "NaN"
                } else {
                    "inf"
                }
            ),
            Op::WNanCustom {
                ty,
                idx,
            } => format!("write::<{}>(NaN) with nan_string = \"{}\"", ty.name(), show_text(NAN_POOL[*idx as usize])),
            Op::WFloatDigits {
                ty,
                bits,
                max,
            } => format!(
                "write_with_options::<{}>(bits {:#x}) with max_significant_digits = {} into a buffer_size_const buffer",
                ty.name(),
                bits,
                max
            ),
            Op::PInfCustom {
                ty,
                idx,
                text,
            } => format!(
                "parse_with_options::<{}>(\"{}\") with inf_string = \"{}\", infinity_string = \"{}\"",
                ty.name(),
                show_text(PINF_TEXTS[*text as usize]),
                show_text(PINF_POOL[*idx as usize].0),
                show_text(PINF_POOL[*idx as usize].1)
            ),
            Op::PNanCustom {
                ty,
                idx,
                text,
            } => format!(
                "parse_with_options::<{}>(\"{}\") with nan_string = \"{}\"",
                ty.name(),
                show_text(PNAN_TEXTS[*text as usize]),
                show_text(PNAN_POOL[*idx as usize])
            ),
            Op::WFloatBreaks {
                ty,
                bits,
                idx,
            } => format!(
                "write_with_options::<{}>(bits {:#x}) with exponent breaks {:?} into a buffer_size_const buffer",
                ty.name(),
                bits,
                BREAK_POOL[*idx as usize]
            ),
        }
    }
}

// ---------------------------------------------------------------------------------------------
// build configuration

pub fn radix_available(r: u8) -> bool {
    if r == 10 {
        return true;
    }
    if cfg!(feature = "radix") {
        return (2..=36).contains(&r);
    }
    if cfg!(feature = "pow2") {
        return matches!(r, 2 | 4 | 8 | 16 | 32);
    }
    false
}

pub fn available_radices() -> Vec<u8> {
    (2..=36).filter(|&r| radix_available(r)).collect()
}

pub fn is_compact() -> bool {
    cfg!(feature = "compact")
}

// ---------------------------------------------------------------------------------------------
// per-worker state that outlives a call: the output arena the caller reuses

pub const GUARD: usize = 64;
pub const CAP: usize = 1536;
const CANARY: u8 = 0xA7;

pub struct Arena {
    mem: Vec<u8>,
    /// 0..8: where in the arena the caller's slice starts changes from call to call, so that nothing
    /// can come to depend on the alignment of the buffer the caller happens to pass
    shift: usize,
    /// the caller's reused *input* line buffer: each parse input is copied to its start (at a slowly
    /// changing alignment) and the parser is given exactly that sub-slice; whatever earlier, longer
    /// records left behind it is still there
    inbuf: Vec<u8>,
    in_shift: usize,
    in_count: usize,
}

/// Interpreter-only mode: hand the library a buffer whose bytes have never been initialised, so that
/// any read of a byte it did not itself store (and any returned range containing one) is reported by
/// miri as a read of uninitialised memory.
pub static UNINIT_BUFFERS: std::sync::atomic::AtomicBool = std::sync::atomic::AtomicBool::new(false);

impl Arena {
    pub fn new() -> Arena {
        Arena {
            mem: vec![0u8; 8 + GUARD + CAP + GUARD],
            shift: 0,
            inbuf: vec![0u8; 8 + 2048],
            in_shift: 0,
            in_count: 0,
        }
    }
    /// Copy a parse input into the reused input buffer; returns the range the parser is given.
    pub fn stage_input(&mut self, text: &[u8]) -> std::ops::Range<usize> {
        self.in_count += 1;
        if self.in_count % 4 == 0 {
            self.in_shift = (self.in_shift + 5) % 8;
        }
        let a = self.in_shift;
        if self.inbuf.len() < a + text.len() + 16 {
            // a longer record than ever before: the buffer grows, its old contents stay
            self.inbuf.resize(a + text.len() + 16, b'0');
        }
        self.inbuf[a..a + text.len()].copy_from_slice(text);
        a..a + text.len()
    }
    pub fn input(&self, r: std::ops::Range<usize>) -> &[u8] {
        &self.inbuf[r]
    }
    /// Overwrite the reusable region with a pattern (the "previous user left this" fault).
    pub fn poison(&mut self, pat: u8) {
        for b in self.inbuf.iter_mut() {
            *b = pat;
        }
        for b in &mut self.mem[GUARD..8 + GUARD + CAP] {
            *b = pat;
        }
    }
    fn arm(&mut self, len: usize) {
        assert!(len <= CAP);
        if UNINIT_BUFFERS.load(std::sync::atomic::Ordering::Relaxed) {
            let n = 8 + GUARD + CAP + GUARD;
            let mut v: Vec<u8> = Vec::with_capacity(n);
            // deliberately uninitialised (see UNINIT_BUFFERS); only ever read after being written
            #[allow(clippy::uninit_vec)]
            unsafe {
                v.set_len(n)
            };
            self.mem = v;
        }
        self.shift = (self.shift + 3) % 8;
        let s = self.shift;
        for b in &mut self.mem[s..s + GUARD] {
            *b = CANARY;
        }
        for b in &mut self.mem[s + GUARD + len..s + GUARD + len + GUARD] {
            *b = CANARY;
        }
    }
    fn buf(&mut self, len: usize) -> &mut [u8] {
        let s = self.shift;
        &mut self.mem[s + GUARD..s + GUARD + len]
    }
    fn damaged(&self, len: usize) -> Option<isize> {
        let s = self.shift;
        for (i, &b) in self.mem[s..s + GUARD].iter().enumerate().rev() {
            if b != CANARY {
                return Some(i as isize - GUARD as isize);
            }
        }
        for (i, &b) in self.mem[s + GUARD + len..s + GUARD + len + GUARD].iter().enumerate() {
            if b != CANARY {
                return Some((len + i) as isize);
            }
        }
        None
    }
}

// ---------------------------------------------------------------------------------------------
// result of one call

#[derive(Clone, Debug)]
pub struct Violation {
    pub prop: &'static str,
    pub msg: String,
    /// class of the failing call when it is one a known finding can name (see known_findings.json)
    pub tag: &'static str,
}

#[derive(Default)]
pub struct OpResult {
    /// canonical outcome (goes into the cross-build transcript)
    pub record: String,
    pub violations: Vec<Violation>,
    /// a panic was raised by the library and caught by the caller during this call
    pub caught_panic: bool,
}

impl OpResult {
    fn fail(&mut self, prop: &'static str, msg: String) {
        self.violations.push(Violation {
            prop,
            msg,
            tag: "",
        });
    }
    fn fail_tagged(&mut self, prop: &'static str, tag: &'static str, msg: String) {
        self.violations.push(Violation {
            prop,
            msg,
            tag,
        });
    }
}

// ---------------------------------------------------------------------------------------------
// type plumbing

pub trait SimInt:
    Copy
    + PartialEq
    + std::fmt::Debug
    + lexical_core::ToLexical
    + lexical_core::ToLexicalWithOptions<Options = WriteIntegerOptions>
    + lexical_core::FromLexical
    + lexical_core::FromLexicalWithOptions<Options = ParseIntegerOptions>
    + FormattedSize
{
    fn from_parts(neg: bool, mag: u128) -> Self;
    fn to_parts(self) -> (bool, u128);
}

macro_rules! sim_int_unsigned {
    ($($t:ty)*) => {$(
        impl SimInt for $t {
            fn from_parts(_neg: bool, mag: u128) -> Self { mag as $t }
            fn to_parts(self) -> (bool, u128) { (false, self as u128) }
        }
    )*};
}
macro_rules! sim_int_signed {
    ($($t:ty)*) => {$(
        impl SimInt for $t {
            fn from_parts(neg: bool, mag: u128) -> Self {
                if neg { (mag as i128).wrapping_neg() as $t } else { mag as $t }
            }
            fn to_parts(self) -> (bool, u128) {
                if self < 0 { (true, (self as i128).unsigned_abs()) } else { (false, self as u128) }
            }
        }
    )*};
}
sim_int_unsigned!(u8 u16 u32 u64 u128 usize);
sim_int_signed!(i8 i16 i32 i64 i128 isize);

pub trait SimFloat:
    Copy
    + lexical_core::ToLexical
    + lexical_core::ToLexicalWithOptions<Options = WriteFloatOptions>
    + lexical_core::FromLexical
    + lexical_core::FromLexicalWithOptions<Options = ParseFloatOptions>
    + FormattedSize
{
    fn from_b(bits: u64) -> Self;
    fn to_b(self) -> u64;
}
impl SimFloat for f32 {
    fn from_b(bits: u64) -> Self {
        f32::from_bits(bits as u32)
    }
    fn to_b(self) -> u64 {
        self.to_bits() as u64
    }
}
impl SimFloat for f64 {
    fn from_b(bits: u64) -> Self {
        f64::from_bits(bits)
    }
    fn to_b(self) -> u64 {
        self.to_bits()
    }
}

macro_rules! int_dispatch {
    ($ty:expr, $T:ident => $body:expr) => {
        match $ty {
            IntTy::U8 => { type $T = u8; $body }
            IntTy::I8 => { type $T = i8; $body }
            IntTy::U16 => { type $T = u16; $body }
            IntTy::I16 => { type $T = i16; $body }
            IntTy::U32 => { type $T = u32; $body }
            IntTy::I32 => { type $T = i32; $body }
            IntTy::U64 => { type $T = u64; $body }
            IntTy::I64 => { type $T = i64; $body }
            IntTy::U128 => { type $T = u128; $body }
            IntTy::I128 => { type $T = i128; $body }
            IntTy::Usize => { type $T = usize; $body }
            IntTy::Isize => { type $T = isize; $body }
        }
    };
}

macro_rules! float_dispatch {
    ($ty:expr, $T:ident => $body:expr) => {
        match $ty {
            FloatTy::F32 => { type $T = f32; $body }
            FloatTy::F64 => { type $T = f64; $body }
        }
    };
}

macro_rules! radix_arm {
    ($F:ident, $r:literal, $body:expr) => {{
        const $F: u128 = NumberFormatBuilder::from_radix($r);
        $body
    }};
}

/// Bind `$F` to the packed format for a run-time radix (only radices the build supports).
macro_rules! radix_dispatch {
    ($r:expr, $F:ident => $body:expr) => {
        match $r {
            10 => { const $F: u128 = lexical_core::format::STANDARD; $body }
            #[cfg(any(feature = "pow2", feature = "radix"))]
            2 => radix_arm!($F, 2, $body),
            #[cfg(any(feature = "pow2", feature = "radix"))]
            4 => radix_arm!($F, 4, $body),
            #[cfg(any(feature = "pow2", feature = "radix"))]
            8 => radix_arm!($F, 8, $body),
            #[cfg(any(feature = "pow2", feature = "radix"))]
            16 => radix_arm!($F, 16, $body),
            #[cfg(any(feature = "pow2", feature = "radix"))]
            32 => radix_arm!($F, 32, $body),
            #[cfg(feature = "radix")]
            3 => radix_arm!($F, 3, $body),
            #[cfg(feature = "radix")]
            5 => radix_arm!($F, 5, $body),
            #[cfg(feature = "radix")]
            6 => radix_arm!($F, 6, $body),
            #[cfg(feature = "radix")]
            7 => radix_arm!($F, 7, $body),
            #[cfg(feature = "radix")]
            9 => radix_arm!($F, 9, $body),
            #[cfg(feature = "radix")]
            11 => radix_arm!($F, 11, $body),
            #[cfg(feature = "radix")]
            12 => radix_arm!($F, 12, $body),
            #[cfg(feature = "radix")]
            13 => radix_arm!($F, 13, $body),
            #[cfg(feature = "radix")]
            14 => radix_arm!($F, 14, $body),
            #[cfg(feature = "radix")]
            15 => radix_arm!($F, 15, $body),
            #[cfg(feature = "radix")]
            17 => radix_arm!($F, 17, $body),
            #[cfg(feature = "radix")]
            18 => radix_arm!($F, 18, $body),
            #[cfg(feature = "radix")]
            19 => radix_arm!($F, 19, $body),
            #[cfg(feature = "radix")]
            20 => radix_arm!($F, 20, $body),
            #[cfg(feature = "radix")]
            21 => radix_arm!($F, 21, $body),
            #[cfg(feature = "radix")]
            22 => radix_arm!($F, 22, $body),
            #[cfg(feature = "radix")]
            23 => radix_arm!($F, 23, $body),
            #[cfg(feature = "radix")]
            24 => radix_arm!($F, 24, $body),
            #[cfg(feature = "radix")]
            25 => radix_arm!($F, 25, $body),
            #[cfg(feature = "radix")]
            26 => radix_arm!($F, 26, $body),
            #[cfg(feature = "radix")]
            27 => radix_arm!($F, 27, $body),
            #[cfg(feature = "radix")]
            28 => radix_arm!($F, 28, $body),
            #[cfg(feature = "radix")]
            29 => radix_arm!($F, 29, $body),
            #[cfg(feature = "radix")]
            30 => radix_arm!($F, 30, $body),
            #[cfg(feature = "radix")]
            31 => radix_arm!($F, 31, $body),
            #[cfg(feature = "radix")]
            33 => radix_arm!($F, 33, $body),
            #[cfg(feature = "radix")]
            34 => radix_arm!($F, 34, $body),
            #[cfg(feature = "radix")]
            35 => radix_arm!($F, 35, $body),
            #[cfg(feature = "radix")]
            36 => radix_arm!($F, 36, $body),
            other => panic!("HARNESS: radix {} not available in this build", other),
        }
    };
}

/// Float radices are instantiated for a smaller set (compile time); see `float_radices()`.
macro_rules! float_radix_dispatch {
    ($r:expr, $F:ident => $body:expr) => {
        match $r {
            #[cfg(any(feature = "pow2", feature = "radix"))]
            2 => radix_arm!($F, 2, $body),
            #[cfg(any(feature = "pow2", feature = "radix"))]
            4 => radix_arm!($F, 4, $body),
            #[cfg(any(feature = "pow2", feature = "radix"))]
            8 => radix_arm!($F, 8, $body),
            #[cfg(any(feature = "pow2", feature = "radix"))]
            16 => radix_arm!($F, 16, $body),
            #[cfg(any(feature = "pow2", feature = "radix"))]
            32 => radix_arm!($F, 32, $body),
            #[cfg(feature = "radix")]
            3 => radix_arm!($F, 3, $body),
            #[cfg(feature = "radix")]
            5 => radix_arm!($F, 5, $body),
            #[cfg(feature = "radix")]
            7 => radix_arm!($F, 7, $body),
            #[cfg(feature = "radix")]
            11 => radix_arm!($F, 11, $body),
            #[cfg(feature = "radix")]
            20 => radix_arm!($F, 20, $body),
            #[cfg(feature = "radix")]
            36 => radix_arm!($F, 36, $body),
            other => panic!("HARNESS: float radix {} not available in this build", other),
        }
    };
}

pub fn float_radices() -> Vec<u8> {
    let mut v = Vec::new();
    if cfg!(any(feature = "pow2", feature = "radix")) {
        v.extend_from_slice(&[2, 4, 8, 16, 32]);
    }
    if cfg!(feature = "radix") {
        v.extend_from_slice(&[3, 5, 7, 11, 20, 36]);
    }
    v
}

// ---------------------------------------------------------------------------------------------
// execution

fn guarded<R>(f: impl FnOnce() -> R) -> Result<R, String> {
    catch_unwind(AssertUnwindSafe(f)).map_err(|e| {
        if let Some(s) = e.downcast_ref::<&str>() {
            s.to_string()
        } else if let Some(s) = e.downcast_ref::<String>() {
            s.clone()
        } else {
            "panic".to_string()
        }
    })
}

/// The facade sizes its own buffer at the documented bound, so a panic there on a valid call is both
/// "facade differs from core" (C17) and "a buffer of the documented size did not suffice" (C09).
fn facade_write_panicked(out: &mut OpResult, msg: &str) {
    out.fail("C17", msg.to_string());
    out.fail("C09", format!("{} (the facade allocates the documented buffer size itself)", msg));
}

/// A written decimal float as (significant digits d1..dn with d1, dn non-zero, exponent p) meaning d1.d2..dn x 10^p.
fn decimal_sig(text: &[u8]) -> Option<(Vec<u8>, i64)> {
    let t = match text.first() {
        Some(b'-') | Some(b'+') => &text[1..],
        _ => text,
    };
    let (mant, exp) = match t.iter().position(|&c| c == b'e' || c == b'E') {
        Some(i) => (&t[..i], std::str::from_utf8(&t[i + 1..]).ok()?.parse::<i64>().ok()?),
        None => (t, 0),
    };
    let (int, frac) = match mant.iter().position(|&c| c == b'.') {
        Some(i) => (&mant[..i], &mant[i + 1..]),
        None => (mant, &mant[mant.len()..]),
    };
    let mut all: Vec<u8> = Vec::new();
    all.extend_from_slice(int);
    all.extend_from_slice(frac);
    if all.is_empty() || !all.iter().all(|c| c.is_ascii_digit()) {
        return None;
    }
    let j = all.iter().position(|&c| c != b'0')?;
    let p = int.len() as i64 + exp - 1 - j as i64;
    let mut d = all[j..].to_vec();
    while d.last() == Some(&b'0') {
        d.pop();
    }
    Some((d, p))
}

/// Is the decimal d1.d2..dn x 10^p exactly the midpoint between the float `bits` and one of its neighbours
/// (an endpoint of its rounding interval)?
fn on_interval_endpoint(ty: FloatTy, bits: u64, digits: &[u8], p: i64) -> bool {
    let (m, e) = ty.decompose(ty.abs(bits));
    let m = m as u128;
    let lower_is_half_gap = m == (1u128 << ty.mant_bits()) && ((ty.abs(bits) >> ty.mant_bits()) > 1);
    let mut mids = vec![dyadic_to_decimal(2 * m + 1, e - 1)];
    mids.push(if lower_is_half_gap {
        dyadic_to_decimal(4 * m - 1, e - 2)
    } else {
        dyadic_to_decimal(2 * m - 1, e - 1)
    });
    mids.iter().any(|(d, k)| {
        let len = d.len() as i64;
        let stripped = d.trim_end_matches('0');
        stripped.as_bytes() == digits && *k as i64 + len - 1 == p
    })
}

/// Two different n-digit candidates, one unit in the last place apart, with the float's exact value halfway
/// between them (its exact expansion is the lower candidate followed by a single 5): both are "closest".
fn equidistant(ty: FloatTy, bits: u64, a: &[u8], ap: i64, b: &[u8], bp: i64) -> bool {
    if ap != bp || a.len() != b.len() {
        return false;
    }
    let lower = if a < b {
        a
    } else {
        b
    };
    let (m, e) = ty.decompose(ty.abs(bits));
    let (d, k) = dyadic_to_decimal(m as u128, e);
    let len = d.len() as i64;
    let exact = d.trim_end_matches('0').as_bytes();
    k as i64 + len - 1 == ap && exact.len() == lower.len() + 1 && &exact[..lower.len()] == lower && exact[lower.len()] == b'5'
}

/// Does the well-formed radix numeral `text` (mantissa digits, optional point, optional exponent written in the
/// same radix, exponent base = radix) denote exactly m * 2^e2?  Exact big-natural arithmetic; None if unreadable.
#[allow(dead_code)]
fn radix_text_denotes(text: &[u8], radix: u32, exp_char: u8, m: u64, e2: i32) -> Option<bool> {
    let t = match text.first() {
        Some(b'-') | Some(b'+') => &text[1..],
        _ => text,
    };
    let (mant, x) = match t.iter().position(|&c| c == exp_char) {
        Some(i) => {
            let e = &t[i + 1..];
            let (neg, digs) = match e.first() {
                Some(b'-') => (true, &e[1..]),
                Some(b'+') => (false, &e[1..]),
                _ => (false, e),
            };
            if digs.is_empty() {
                return None;
            }
            let mut v: i64 = 0;
            for &c in digs {
                v = v.checked_mul(radix as i64)?.checked_add(digit_val(c, radix)? as i64)?;
            }
            (&t[..i], if neg { -v } else { v })
        },
        None => (t, 0),
    };
    let mut n = BigNat::from_u128(0);
    let mut frac = 0i64;
    let mut seen_point = false;
    let mut any = false;
    for &c in mant {
        if c == b'.' {
            if seen_point {
                return None;
            }
            seen_point = true;
            continue;
        }
        let d = digit_val(c, radix)?;
        n.mul_small(radix);
        n.add_small(d);
        any = true;
        if seen_point {
            frac += 1;
        }
    }
    if !any {
        return None;
    }
    // text = n * radix^s ; value = m * 2^e2 ; compare after clearing negative powers on both sides
    let s = x - frac;
    let mut lhs = n;
    let mut rhs = BigNat::from_u128(m as u128);
    if s >= 0 {
        lhs.mul_pow(radix, u32::try_from(s).ok()?);
    } else {
        rhs.mul_pow(radix, u32::try_from(-s).ok()?);
    }
    if e2 >= 0 {
        rhs.mul_pow(2, e2 as u32);
    } else {
        lhs.mul_pow(2, (-e2) as u32);
    }
    Some(lhs.to_decimal() == rhs.to_decimal())
}

fn is_ascii(b: &[u8]) -> bool {
    b.iter().all(|&c| c < 0x80)
}

fn show_int_result<T: SimInt>(r: &lexical_core::Result<T>) -> String {
    match r {
        Ok(v) => {
            let (n, m) = v.to_parts();
            format!(
                "Ok({}{})",
                if n {
                    "-"
                } else {
                    ""
                },
                m
            )
        },
        Err(e) => format!("Err({:?})", e),
    }
}

fn show_int_partial<T: SimInt>(r: &lexical_core::Result<(T, usize)>) -> String {
    match r {
        Ok((v, n)) => {
            let (ng, m) = v.to_parts();
            format!(
                "Ok({}{},{})",
                if ng {
                    "-"
                } else {
                    ""
                },
                m,
                n
            )
        },
        Err(e) => format!("Err({:?})", e),
    }
}

fn ref_show_complete(r: &Result<IntVal, IntErr>) -> String {
    match r {
        Ok((n, m)) => format!(
            "Ok({}{})",
            if *n {
                "-"
            } else {
                ""
            },
            m
        ),
        Err(e) => format!("Err({})", e.show()),
    }
}

fn ref_show_partial(r: &Result<(IntVal, usize), IntErr>) -> String {
    match r {
        Ok(((n, m), c)) => format!(
            "Ok({}{},{})",
            if *n {
                "-"
            } else {
                ""
            },
            m,
            c
        ),
        Err(e) => format!("Err({})", e.show()),
    }
}

fn err_index(e: &lexical_core::Error) -> Option<usize> {
    e.index().copied()
}

fn exec_wint<T: SimInt, const F: u128>(
    radix: u8,
    neg: bool,
    mag: u128,
    short: Option<usize>,
    arena: &mut Arena,
    out: &mut OpResult,
) {
    let v = T::from_parts(neg, mag);
    let bound = if radix == 10 {
        T::FORMATTED_SIZE_DECIMAL
    } else {
        T::FORMATTED_SIZE
    };
    let len = short.unwrap_or(bound);
    let want = ref_write_int(neg, mag, radix as u32);
    arena.arm(len);
    let opts = WriteIntegerOptions::new();
    let r = {
        let buf = arena.buf(len);
        let start = buf.as_ptr() as usize;
        guarded(|| {
            let w: &mut [u8] = if radix == 10 {
                lexical_core::write(v, buf)
            } else {
                lexical_core::write_with_options::<T, F>(v, buf, &opts)
            };
            (w.as_ptr() as usize - start, w.len())
        })
    };
    if let Some(off) = arena.damaged(len) {
        out.fail("C09", format!("byte at offset {} relative to the caller's {}-byte slice was overwritten", off, len));
    }
    match r {
        Err(p) => {
            out.caught_panic = true;
            out.record = "panic".into();
            if short.is_none() {
                out.fail("C09", format!("panicked with a buffer of the documented size {}: {}", bound, p));
                out.fail("C03", format!("panicked instead of writing the numeral: {}", p));
            } else if len >= want.len() && len >= bound {
                out.fail("C09", format!("panicked with a buffer of {} >= documented size {}: {}", len, bound, p));
            }
        },
        Ok((off, n)) => {
            let got = arena.buf(len)[..n.min(len)].to_vec();
            out.record = String::from_utf8_lossy(&got).into_owned();
            if off != 0 || n > len {
                out.fail("C03", format!("returned slice is not a prefix of the buffer (offset {}, len {})", off, n));
            }
            if n > bound {
                out.fail("C09", format!("returned {} bytes, more than the documented bound {}", n, bound));
            }
            if got != want {
                out.fail(
                    "C03",
                    format!("wrote \"{}\", canonical numeral is \"{}\"", show_text(&got), show_text(&want)),
                );
            }
            if !is_ascii(&got) {
                out.fail("C17", format!("writer emitted non-ASCII bytes {:x?}", got));
            }
            if short.is_none() {
                // what lexical writes, lexical parses back (C08)
                let popts = ParseIntegerOptions::new();
                let back = guarded(|| {
                    if radix == 10 {
                        lexical_core::parse::<T>(&got)
                    } else {
                        lexical_core::parse_with_options::<T, F>(&got, &popts)
                    }
                });
                match back {
                    Ok(Ok(b)) if b == v => {},
                    other => out.fail(
                        "C08",
                        format!(
                            "written \"{}\" parsed back as {}",
                            show_text(&got),
                            match other {
                                Ok(r) => show_int_result(&r),
                                Err(p) => format!("panic: {}", p),
                            }
                        ),
                    ),
                }
                // the allocating facade returns the same bytes (C17)
                let s = guarded(|| {
                    if radix == 10 {
                        lexical::to_string(v)
                    } else {
                        lexical::to_string_with_options::<T, F>(v, &opts)
                    }
                });
                match s {
                    Ok(s) if s.as_bytes() == &got[..] => {},
                    Ok(s) => out.fail(
                        "C17",
                        format!(
                            "lexical::to_string returned \"{}\" but lexical_core::write produced \"{}\"",
                            show_text(s.as_bytes()),
                            show_text(&got)
                        ),
                    ),
                    Err(p) => {
                        out.caught_panic = true;
                        facade_write_panicked(out, &format!("lexical::to_string panicked: {}", p))
                    },
                }
            }
        },
    }
}

fn exec_pint<T: SimInt, const F: u128>(ty: IntTy, radix: u8, text: &[u8], out: &mut OpResult) {
    let opts = ParseIntegerOptions::new();
    let model = ref_parse_int(ty, radix as u32, text);
    let c = guarded(|| {
        no_alloc(|| {
            if radix == 10 {
                lexical_core::parse::<T>(text)
            } else {
                lexical_core::parse_with_options::<T, F>(text, &opts)
            }
        })
    });
    let p = guarded(|| {
        no_alloc(|| {
            if radix == 10 {
                lexical_core::parse_partial::<T>(text)
            } else {
                lexical_core::parse_partial_with_options::<T, F>(text, &opts)
            }
        })
    });
    let (c, p) = match (c, p) {
        (Ok(c), Ok(p)) => (c, p),
        (c, p) => {
            out.caught_panic = true;
            out.record = "panic".into();
            let m = c.err().or(p.err()).unwrap_or_default();
            out.fail("C10", format!("parser panicked: {}", m));
            out.fail("C04", format!("parser panicked instead of returning a result: {}", m));
            return;
        },
    };
    let cs = show_int_result(&c);
    let ps = show_int_partial(&p);
    out.record = format!("{} {}", cs, ps);
    // the multi-digit optimisation (off by default) must not change any result
    {
        const STD: u128 = lexical_core::format::STANDARD;
        let multi = ParseIntegerOptions::builder().no_multi_digit(false).build_unchecked();
        let mc = guarded(|| {
            if radix == 10 {
                lexical_core::parse_with_options::<T, STD>(text, &multi)
            } else {
                lexical_core::parse_with_options::<T, F>(text, &multi)
            }
        });
        let mp = guarded(|| {
            if radix == 10 {
                lexical_core::parse_partial_with_options::<T, STD>(text, &multi)
            } else {
                lexical_core::parse_partial_with_options::<T, F>(text, &multi)
            }
        });
        match (mc, mp) {
            (Ok(mc), Ok(mp)) => {
                let (mcs, mps) = (show_int_result(&mc), show_int_partial(&mp));
                if mcs != cs || mps != ps {
                    out.fail(
                        "C04",
                        format!("with multi-digit parsing enabled: {} / {}, without: {} / {}", mcs, mps, cs, ps),
                    );
                }
            },
            (a, b) => {
                out.caught_panic = true;
                let m = a.err().or(b.err()).unwrap_or_default();
                out.fail("C10", format!("parser panicked with multi-digit parsing enabled: {}", m));
                out.fail("C04", format!("parser panicked with multi-digit parsing enabled: {}", m));
            },
        }
    }
    // C10: indices within the input
    if let Err(e) = &c {
        if err_index(e).map_or(false, |i| i > text.len()) {
            out.fail("C10", format!("complete parse error index beyond input length {}: {}", text.len(), cs));
        }
    }
    match &p {
        Ok((_, n)) if *n > text.len() => {
            out.fail("C10", format!("partial parse consumed {} > input length {}", n, text.len()))
        },
        Err(e) if err_index(e).map_or(false, |i| i > text.len()) => {
            out.fail("C10", format!("partial parse error index beyond input length {}: {}", text.len(), ps))
        },
        _ => {},
    }
    // C04: exactly the reference scan
    let want_c = ref_show_complete(&model.complete);
    let want_p = ref_show_partial(&model.partial);
    let more = model.start < text.len();
    let ok_c = cs == want_c || (model.zero_digits && more && cs == format!("Err(InvalidDigit({}))", model.start));
    let ok_p = ps == want_p || (model.zero_digits && more && ps == format!("Ok(0,{})", model.start));
    if !ok_c {
        out.fail("C04", format!("complete parse returned {}, reference scan gives {}", cs, want_c));
    }
    if !ok_p {
        out.fail("C04", format!("partial parse returned {}, reference scan gives {}", ps, want_p));
    }
    // C11: partial and complete agree
    match (&c, &p) {
        (Ok(v), Ok((w, n))) if v == w && *n == text.len() => {},
        (Ok(_), _) => out.fail("C11", format!("complete {} but partial {}", cs, ps)),
        (Err(_), Ok((_, n))) if *n == text.len() => {
            out.fail("C11", format!("complete {} but partial consumed everything: {}", cs, ps))
        },
        _ => {},
    }
    if let Ok((w, n)) = &p {
        if *n > 0 && *n <= text.len() && *n < text.len() {
            let pre = guarded(|| {
                if radix == 10 {
                    lexical_core::parse::<T>(&text[..*n])
                } else {
                    lexical_core::parse_with_options::<T, F>(&text[..*n], &opts)
                }
            });
            match pre {
                Ok(Ok(v)) if v == *w => {},
                Ok(r) => {
                    let tag = if model.zero_digits && *n == model.start {
                        "int-sign-then-nondigit"
                    } else {
                        ""
                    };
                    out.fail_tagged(
                        "C11",
                        tag,
                        format!("partial {} but complete parse of that prefix gives {}", ps, show_int_result(&r)),
                    )
                },
                Err(m) => out.fail("C10", format!("parser panicked on prefix: {}", m)),
            }
        }
    }
    // C17: facade == core
    if radix == 10 {
        let f = guarded(|| lexical::parse::<T, _>(text));
        match f {
            Ok(r) if show_int_result(&r) == cs => {},
            Ok(r) => out.fail("C17", format!("lexical::parse gave {}, lexical_core::parse {}", show_int_result(&r), cs)),
            Err(m) => out.fail("C17", format!("lexical::parse panicked: {}", m)),
        }
    }
}

fn show_f<T: SimFloat>(r: &lexical_core::Result<T>) -> String {
    match r {
        Ok(v) => format!("Ok({:#x})", v.to_b()),
        Err(e) => format!("Err({:?})", e),
    }
}

fn show_fp<T: SimFloat>(r: &lexical_core::Result<(T, usize)>) -> String {
    match r {
        Ok((v, n)) => format!("Ok({:#x},{})", v.to_b(), n),
        Err(e) => format!("Err({:?})", e),
    }
}

fn canon_nan(ty: FloatTy, bits: u64) -> u64 {
    if ty.is_nan(bits) {
        u64::MAX
    } else {
        bits
    }
}

fn looks_special(text: &[u8]) -> bool {
    let t = match text.first() {
        Some(b'+') | Some(b'-') => &text[1..],
        _ => text,
    };
    t.first().map_or(false, |c| matches!(c, b'n' | b'N' | b'i' | b'I'))
}

fn exec_pfloat<T: SimFloat>(ty: FloatTy, text: &[u8], expect: Option<u64>, lite: bool, out: &mut OpResult) {
    const STD: u128 = lexical_core::format::STANDARD;
    let lossy: ParseFloatOptions = ParseFloatOptions::builder().lossy(true).build_unchecked();
    let c = guarded(|| no_alloc(|| lexical_core::parse::<T>(text)));
    let p = guarded(|| no_alloc(|| lexical_core::parse_partial::<T>(text)));
    let lc = guarded(|| no_alloc(|| lexical_core::parse_with_options::<T, STD>(text, &lossy)));
    let lp = guarded(|| no_alloc(|| lexical_core::parse_partial_with_options::<T, STD>(text, &lossy)));
    let (c, p, lc, lp) = match (c, p, lc, lp) {
        (Ok(c), Ok(p), Ok(lc), Ok(lp)) => (c, p, lc, lp),
        (c, p, lc, lp) => {
            out.caught_panic = true;
            out.record = "panic".into();
            let exact_panicked = c.is_err() || p.is_err();
            let m = c.err().or(p.err()).or(lc.err()).or(lp.err()).unwrap_or_default();
            out.fail("C10", format!("parser panicked: {}", m));
            if is_plain_decimal_float(text) {
                if exact_panicked {
                    out.fail("C01", format!("parser panicked on a valid decimal float instead of returning its value: {}", m));
                }
                out.fail("C19", format!("parser panicked (exact or lossy) on a valid decimal float: {}", m));
            }
            return;
        },
    };
    let cs = show_f(&c);
    let ps = show_fp(&p);
    out.record = format!(
        "{} {}",
        match &c {
            Ok(v) => format!("Ok({:#x})", canon_nan(ty, v.to_b())),
            Err(e) => format!("Err({:?})", e),
        },
        match &p {
            Ok((v, n)) => format!("Ok({:#x},{})", canon_nan(ty, v.to_b()), n),
            Err(e) => format!("Err({:?})", e),
        }
    );
    // C10
    if let Err(e) = &c {
        if err_index(e).map_or(false, |i| i > text.len()) {
            out.fail("C10", format!("complete parse error index beyond input length {}: {}", text.len(), cs));
        }
    }
    match &p {
        Ok((_, n)) if *n > text.len() => {
            out.fail("C10", format!("partial parse consumed {} > input length {}", n, text.len()))
        },
        Err(e) if err_index(e).map_or(false, |i| i > text.len()) => {
            out.fail("C10", format!("partial parse error index beyond input length {}: {}", text.len(), ps))
        },
        _ => {},
    }
    // reference value
    let plain = is_plain_decimal_float(text);
    let special = looks_special(text);
    // under the interpreter (`lite`) the expectation was filled in natively by `gen-free`
    let std_val = if lite && expect.is_some() {
        expect
    } else {
        std::str::from_utf8(text).ok().and_then(|s| {
            if plain || special {
                ty.std_parse(s)
            } else {
                None
            }
        })
    };
    if let (Some(e), Some(s)) = (expect, std_val) {
        if e != s {
            // the generator's constructed expectation disagrees with Rust's parser: harness bug
            out.fail("HARNESS", format!("constructed expectation {:#x} != std {:#x}", e, s));
        }
    }
    let want = expect.or(std_val);
    if plain {
        match (&c, want) {
            (Ok(v), Some(w)) if v.to_b() == w => {},
            (r, Some(w)) => {
                // class named by a known finding: `compact` builds mis-round long inputs that sit
                // next to a rounding boundary, by exactly one unit in the last place
                let tag = match r {
                    Ok(v)
                        if is_compact()
                            && ty.is_finite(v.to_b())
                            && ty.is_finite(w)
                            && ty.ulp_distance(v.to_b(), w) == 1
                            && significant_digits(text, 10, b'e') > 19 =>
                    {
                        "compact-long-near-halfway-1ulp"
                    },
                    _ => "",
                };
                out.fail_tagged(
                    "C01",
                    tag,
                    format!("returned {}, the correctly rounded value is {:#x}", show_f(r), w),
                );
                if let Ok(v) = r {
                    if ty.abs(w) == 0 && ty.abs(v.to_b()) == 0 {
                        out.fail("C15", format!("sign of zero lost: returned {:#x}, expected {:#x}", v.to_b(), w));
                    }
                }
            },
            _ => {},
        }
        // no numeric input ever yields NaN
        if let Ok(v) = &c {
            if ty.is_nan(v.to_b()) {
                out.fail("C15", "numeric input parsed as NaN".to_string());
            }
        }
    } else if special {
        match (&c, std_val) {
            (Ok(v), Some(w)) if canon_nan(ty, v.to_b()) == canon_nan(ty, w) => {},
            (Err(_), None) => {},
            (r, w) => out.fail(
                "C15",
                format!(
                    "special-looking input gave {}, expected {}",
                    show_f(r),
                    match w {
                        Some(w) => format!("{:#x}", w),
                        None => "rejection".into(),
                    }
                ),
            ),
        }
    }
    if !plain {
        // whatever else a non-numeric input is, it is not a special value unless it spells one in ASCII letters
        let spells = {
            let t = match text.first() {
                Some(b'+') | Some(b'-') => &text[1..],
                _ => text,
            };
            t.eq_ignore_ascii_case(b"nan") || t.eq_ignore_ascii_case(b"inf") || t.eq_ignore_ascii_case(b"infinity")
        };
        if let Ok(v) = &c {
            let b = v.to_b();
            if !spells && (ty.is_nan(b) || (ty.is_inf(b) && !text.iter().any(|c| c.is_ascii_digit()))) {
                out.fail("C15", format!("input that spells no special string was accepted as {}", cs));
            }
        }
        if let Ok((v, n)) = &p {
            let b = v.to_b();
            let t = match text.first() {
                Some(b'+') | Some(b'-') => &text[1..],
                _ => text,
            };
            let prefix_spells = [&b"nan"[..], b"inf", b"infinity"].iter().any(|s| t.len() >= s.len() && t[..s.len()].eq_ignore_ascii_case(s));
            if *n > 0 && !prefix_spells && (ty.is_nan(b) || (ty.is_inf(b) && !text[..*n].iter().any(|c| c.is_ascii_digit()))) {
                out.fail("C15", format!("partial parse accepted a prefix that spells no special string as {}", ps));
            }
        }
    }
    // C11
    match (&c, &p) {
        (Ok(v), Ok((w, n))) if canon_nan(ty, v.to_b()) == canon_nan(ty, w.to_b()) && *n == text.len() => {},
        (Ok(_), _) => out.fail("C11", format!("complete {} but partial {}", cs, ps)),
        (Err(_), Ok((_, n))) if *n == text.len() => {
            out.fail("C11", format!("complete {} but partial consumed everything: {}", cs, ps))
        },
        _ => {},
    }
    if let Ok((w, n)) = &p {
        if *n > 0 && *n < text.len() {
            match guarded(|| lexical_core::parse::<T>(&text[..*n])) {
                Ok(Ok(v)) if canon_nan(ty, v.to_b()) == canon_nan(ty, w.to_b()) => {},
                Ok(r) => out.fail(
                    "C11",
                    format!("partial {} but complete parse of that prefix gives {}", ps, show_f(&r)),
                ),
                Err(m) => out.fail("C10", format!("parser panicked on prefix: {}", m)),
            }
        }
    }
    // C19: lossy changes only precision, by at most one ULP
    let same_shape = match (&c, &lc) {
        (Ok(_), Ok(_)) => true,
        (Err(a), Err(b)) => a == b,
        _ => false,
    } && match (&p, &lp) {
        (Ok((_, a)), Ok((_, b))) => a == b,
        (Err(a), Err(b)) => a == b,
        _ => false,
    };
    if !same_shape {
        out.fail(
            "C19",
            format!("lossy accepts/rejects differently: exact {} / {} vs lossy {} / {}", cs, ps, show_f(&lc), show_fp(&lp)),
        );
    } else if let (Ok(a), Ok(b)) = (&c, &lc) {
        let (a, b) = (a.to_b(), b.to_b());
        if ty.is_finite(a) && ty.is_finite(b) {
            if ty.ulp_distance(a, b) > 1 {
                out.fail("C19", format!("lossy result {:#x} is more than one ULP from {:#x}", b, a));
            }
            if ty.abs(a) == 0 && ty.abs(b) != 0 {
                out.fail("C19", format!("lossy changed a zero result to {:#x}", b));
            }
        } else if canon_nan(ty, a) != canon_nan(ty, b) {
            // (a finite neighbour of infinity is allowed only the other way round by "neighbours")
            if !(ty.is_inf(a) && ty.is_finite(b) && ty.ulp_distance(ty.abs(a), ty.abs(b)) <= 1) {
                out.fail("C19", format!("lossy result {:#x} vs exact {:#x}", b, a));
            }
        }
    }
    // C17
    match guarded(|| lexical::parse::<T, _>(text)) {
        Ok(r) => {
            let same = match (&r, &c) {
                (Ok(a), Ok(b)) => canon_nan(ty, a.to_b()) == canon_nan(ty, b.to_b()),
                (Err(a), Err(b)) => a == b,
                _ => false,
            };
            if !same {
                out.fail("C17", format!("lexical::parse gave {}, lexical_core::parse {}", show_f(&r), cs));
            }
        },
        Err(m) => out.fail("C17", format!("lexical::parse panicked: {}", m)),
    }
}

fn well_formed_float(text: &[u8], radix: u32, exp_char: u8) -> bool {
    // [-] digits [. digits] [exp [+-] digits]   (digits valid for the radix, at least one)
    let mut i = 0;
    let n = text.len();
    if i < n && text[i] == b'-' {
        i += 1;
    }
    let mut d = 0;
    while i < n && text[i] != exp_char && digit_val(text[i], radix).is_some() {
        i += 1;
        d += 1;
    }
    if i < n && text[i] == b'.' {
        i += 1;
        while i < n && text[i] != exp_char && digit_val(text[i], radix).is_some() {
            i += 1;
            d += 1;
        }
    }
    if d == 0 {
        return false;
    }
    if i < n && text[i] == exp_char {
        i += 1;
        if i < n && (text[i] == b'-' || text[i] == b'+') {
            i += 1;
        }
        let mut e = 0;
        while i < n && digit_val(text[i], radix).is_some() {
            i += 1;
            e += 1;
        }
        if e == 0 {
            return false;
        }
    }
    i == n
}

fn exec_wfloat<T: SimFloat>(ty: FloatTy, bits: u64, short: Option<usize>, arena: &mut Arena, out: &mut OpResult) {
    let v = T::from_b(bits);
    let bound = T::FORMATTED_SIZE_DECIMAL;
    let len = short.unwrap_or(bound);
    arena.arm(len);
    let r = {
        let buf = arena.buf(len);
        let start = buf.as_ptr() as usize;
        guarded(|| {
            let w = lexical_core::write(v, buf);
            (w.as_ptr() as usize - start, w.len())
        })
    };
    if let Some(off) = arena.damaged(len) {
        out.fail("C09", format!("byte at offset {} relative to the caller's {}-byte slice was overwritten", off, len));
    }
    let (off, n) = match r {
        Err(p) => {
            out.caught_panic = true;
            out.record = "panic".into();
            if short.is_none() {
                out.fail("C09", format!("panicked with a buffer of the documented size {}: {}", bound, p));
                if ty.is_finite(bits) {
                    out.fail("C02", format!("panicked instead of writing the value: {}", p));
                }
            }
            return;
        },
        Ok(x) => x,
    };
    let got = arena.buf(len)[..n.min(len)].to_vec();
    out.record = String::from_utf8_lossy(&got).into_owned();
    if off != 0 || n > len || n > bound {
        out.fail("C09", format!("returned slice is not a prefix within the bound (offset {}, len {}, bound {})", off, n, bound));
    }
    if !is_ascii(&got) {
        out.fail("C17", format!("writer emitted non-ASCII bytes {:x?}", got));
    }
    let text = String::from_utf8_lossy(&got).into_owned();
    if ty.is_nan(bits) {
        if text != "NaN" {
            out.fail("C15", format!("NaN written as \"{}\"", text));
        }
    } else if ty.is_inf(bits) {
        let want = if ty.sign(bits) {
            "-inf"
        } else {
            "inf"
        };
        if text != want {
            out.fail("C15", format!("infinity written as \"{}\", expected \"{}\"", text, want));
        }
    } else {
        if !well_formed_float(&got, 10, b'e') {
            out.fail("C02", format!("output \"{}\" is not a well-formed decimal float", text));
        } else {
            match ty.std_parse(&text) {
                Some(b) if b == bits => {},
                Some(b) => {
                    let prop = if ty.abs(bits) == 0 {
                        "C15"
                    } else {
                        "C02"
                    };
                    out.fail(prop, format!("output \"{}\" denotes {:#x}, not the written {:#x}", text, b, bits))
                },
                None => out.fail("C02", format!("output \"{}\" is not parseable", text)),
            }
            let nd = significant_digits(&got, 10, b'e');
            if nd > ty.max_sig_digits() {
                out.fail("C02", format!("output \"{}\" has {} significant digits", text, nd));
            }
            // shortest, and closest among shortest (non-compact builds): the digit string and decimal
            // exponent must be those of Rust's own shortest round-tripping form
            if !is_compact() && ty.abs(bits) != 0 && ty.std_parse(&text) == Some(bits) {
                let std_s = ty.std_shortest_sci(bits);
                match (decimal_sig(&got), decimal_sig(std_s.as_bytes())) {
                    (Some((ld, lp)), Some((sd, sp))) => {
                        if ld.len() > sd.len() {
                            let tag = if on_interval_endpoint(ty, bits, &sd, sp) {
                                "shorter-decimal-on-interval-endpoint"
                            } else {
                                ""
                            };
                            out.fail_tagged(
                                "C02",
                                tag,
                                format!("output \"{}\" has {} significant digits; \"{}\" round-trips with {}", text, ld.len(), std_s, sd.len()),
                            );
                        } else if ld.len() == sd.len() && (ld != sd || lp != sp) && !equidistant(ty, bits, &ld, lp, &sd, sp) {
                            out.fail(
                                "C02",
                                format!("output \"{}\" is not the closest of the shortest candidates: \"{}\" is", text, std_s),
                            );
                        }
                    },
                    _ => out.fail("HARNESS", format!("cannot read the digits of \"{}\" / \"{}\"", text, std_s)),
                }
            }
        }
    }
    if short.is_none() {
        // C08: lexical parses back what it wrote
        match guarded(|| lexical_core::parse::<T>(&got)) {
            Ok(Ok(b)) if canon_nan(ty, b.to_b()) == canon_nan(ty, bits) => {},
            Ok(r) => out.fail("C08", format!("written \"{}\" parsed back as {}", text, show_f(&r))),
            Err(m) => out.fail("C08", format!("parser panicked on written \"{}\": {}", text, m)),
        }
        // C17
        match guarded(|| lexical::to_string(v)) {
            Ok(s) if s.as_bytes() == &got[..] => {},
            Ok(s) => out.fail(
                "C17",
                format!("lexical::to_string returned \"{}\" but lexical_core::write produced \"{}\"", show_text(s.as_bytes()), text),
            ),
            Err(m) => {
                out.caught_panic = true;
                facade_write_panicked(out, &format!("lexical::to_string panicked: {}", m))
            },
        }
    }
}

#[cfg(any(feature = "pow2", feature = "radix"))]
fn exec_wfloat_r<T: SimFloat, const F: u128>(ty: FloatTy, radix: u8, bits: u64, brk: Option<u8>, arena: &mut Arena, out: &mut OpResult) {
    let v = T::from_b(bits);
    let popts = ParseFloatOptions::from_radix(radix);
    let exp_char = if radix >= 15 {
        b'^'
    } else {
        b'e'
    };
    let (wopts, bound) = match brk {
        None => (WriteFloatOptions::from_radix(radix), T::FORMATTED_SIZE),
        Some(i) => {
            let (nb, pb) = BREAK_POOL[i as usize];
            let o = match WriteFloatOptions::builder()
                .exponent(exp_char)
                .negative_exponent_break(core::num::NonZeroI32::new(nb))
                .positive_exponent_break(core::num::NonZeroI32::new(pb))
                .build()
            {
                Ok(o) => o,
                Err(e) => {
                    out.fail("HARNESS", format!("radix break options rejected: {:?}", e));
                    return;
                },
            };
            let b = o.buffer_size_const::<T, F>();
            if b > CAP {
                out.fail("HARNESS", format!("buffer_size_const {} exceeds arena", b));
                return;
            }
            (o, b)
        },
    };
    arena.arm(bound);
    let r = {
        let buf = arena.buf(bound);
        let start = buf.as_ptr() as usize;
        guarded(|| {
            let w = lexical_core::write_with_options::<T, F>(v, buf, &wopts);
            (w.as_ptr() as usize - start, w.len())
        })
    };
    if let Some(off) = arena.damaged(bound) {
        out.fail("C09", format!("byte at offset {} relative to the caller's {}-byte slice was overwritten", off, bound));
    }
    let (off, n) = match r {
        Err(p) => {
            out.caught_panic = true;
            out.record = "panic".into();
            out.fail("C09", format!("panicked with a buffer of the documented size {}: {}", bound, p));
            if ty.is_finite(bits) {
                out.fail(
                    if radix.is_power_of_two() {
                        "C06"
                    } else {
                        "C07"
                    },
                    format!("panicked instead of writing the value: {}", p),
                );
            }
            return;
        },
        Ok(x) => x,
    };
    let got = arena.buf(bound)[..n.min(bound)].to_vec();
    let text = String::from_utf8_lossy(&got).into_owned();
    out.record = text.clone();
    if off != 0 || n > bound {
        out.fail("C09", format!("returned slice is not a prefix within the bound (offset {}, len {})", off, n));
    }
    if !is_ascii(&got) {
        out.fail("C17", format!("writer emitted non-ASCII bytes {:x?}", got));
    }
    let pow2 = radix.is_power_of_two();
    let tag = if pow2 {
        "C06"
    } else {
        "C07"
    };
    if !ty.is_finite(bits) {
        return;
    }
    if !well_formed_float(&got, radix as u32, exp_char) {
        // class named by a known finding: the generic-radix writer (rarely) emits a "digit" equal to the radix
        let carry_digit = digit_char(radix as u32);
        let only_that = {
            let mut t = got.clone();
            for b in t.iter_mut() {
                if *b == carry_digit {
                    *b = b'1';
                }
            }
            well_formed_float(&t, radix as u32, exp_char)
        };
        let kf = if !pow2 && got.contains(&carry_digit) && only_that {
            "radix-writer-digit-equals-radix"
        } else {
            ""
        };
        out.fail_tagged(tag, kf, format!("output \"{}\" is not a well-formed radix-{} float", text, radix));
        return;
    }
    // independent of the library's parser: the written numeral, evaluated exactly, against the float's exact value
    let int_limit = match ty {
        FloatTy::F64 => 1u64 << 53,
        FloatTy::F32 => 1u64 << 24,
    };
    let (m2, e2) = ty.decompose(ty.abs(bits));
    let small_integer = e2 <= 0 && e2 > -64 && (m2 >> (-e2)) << (-e2) == m2 && (m2 >> (-e2)) < int_limit;
    if ty.abs(bits) != 0 && (pow2 || small_integer) {
        match radix_text_denotes(&got, radix as u32, exp_char, m2, e2) {
            Some(true) => {},
            Some(false) => out.fail(
                tag,
                format!(
                    "radix-{} output \"{}\" does not denote exactly the written value {:#x} ({})",
                    radix,
                    text,
                    bits,
                    if pow2 { "a digit was rounded or dropped" } else { "an integer below 2^53 / 2^24 must be written exactly" }
                ),
            ),
            None => out.fail("HARNESS", format!("cannot evaluate well-formed radix-{} output \"{}\"", radix, text)),
        }
    }
    match guarded(|| lexical_core::parse_with_options::<T, F>(&got, &popts)) {
        Ok(Ok(b)) => {
            let b = b.to_b();
            if pow2 {
                if b != bits {
                    out.fail("C06", format!("radix-{} output \"{}\" re-parses as {:#x}, not {:#x}", radix, text, b, bits));
                }
            } else {
                let tol = match ty {
                    FloatTy::F64 => 2048,
                    FloatTy::F32 => 256,
                };
                if !ty.is_finite(b) || ty.ulp_distance(b, bits) >= tol {
                    out.fail("C07", format!("radix-{} output \"{}\" re-parses as {:#x}, {:#x} was written", radix, text, b, bits));
                }
            }
        },
        Ok(Err(e)) => out.fail(tag, format!("radix-{} output \"{}\" is rejected by the parser: {:?}", radix, text, e)),
        Err(m) => out.fail("C10", format!("parser panicked on \"{}\": {}", text, m)),
    }
    match guarded(|| lexical::to_string_with_options::<T, F>(v, &wopts)) {
        Ok(s) if s.as_bytes() == &got[..] => {},
        Ok(s) => out.fail(
            "C17",
            format!("lexical::to_string_with_options returned \"{}\" but lexical_core produced \"{}\"", show_text(s.as_bytes()), text),
        ),
        Err(m) => facade_write_panicked(out, &format!("lexical::to_string_with_options panicked: {}", m)),
    }
}

#[cfg(any(feature = "pow2", feature = "radix"))]
fn exec_pfloat_r<T: SimFloat, const F: u128>(radix: u8, text: &[u8], expect: u64, out: &mut OpResult) {
    let popts = ParseFloatOptions::from_radix(radix);
    let c = guarded(|| lexical_core::parse_with_options::<T, F>(text, &popts));
    let p = guarded(|| lexical_core::parse_partial_with_options::<T, F>(text, &popts));
    match (c, p) {
        (Ok(c), Ok(p)) => {
            out.record = format!("{} {}", show_f(&c), show_fp(&p));
            match &c {
                Ok(v) if v.to_b() == expect => {},
                r => {
                    // class named by a known finding: in radices that are not powers of two, very long inputs next to
                    // a rounding boundary are (rarely) rounded to the wrong neighbour
                    let ty = if core::mem::size_of::<T>() == 4 {
                        FloatTy::F32
                    } else {
                        FloatTy::F64
                    };
                    let tag = match r {
                        Ok(v)
                            if !radix.is_power_of_two()
                                && text.len() > 40
                                && ty.is_finite(v.to_b())
                                && ty.is_finite(expect)
                                && ty.ulp_distance(v.to_b(), expect) == 1 =>
                        {
                            "radix-long-near-halfway-1ulp"
                        },
                        _ => "",
                    };
                    out.fail_tagged("C05", tag, format!("returned {}, the exact value is {:#x}", show_f(r), expect))
                },
            }
            match (&c, &p) {
                (Ok(v), Ok((w, n))) if v.to_b() == w.to_b() && *n == text.len() => {},
                (Err(_), Err(_)) => {},
                (_, r) => out.fail("C11", format!("partial parse returned {}, complete {}", show_fp(r), show_f(&c))),
            }
        },
        (c, p) => {
            out.caught_panic = true;
            out.fail("C10", format!("parser panicked: {}", c.err().or(p.err()).unwrap_or_default()));
        },
    }
}

fn exec_special_off<T: SimFloat>(ty: FloatTy, which: u8, arena: &mut Arena, out: &mut OpResult) {
    const STD: u128 = lexical_core::format::STANDARD;
    let opts = if which == 0 {
        WriteFloatOptions::builder().nan_string(None).build_unchecked()
    } else {
        WriteFloatOptions::builder().inf_string(None).build_unchecked()
    };
    let bits = match (ty, which) {
        (FloatTy::F32, 0) => f32::NAN.to_bits() as u64,
        (FloatTy::F64, 0) => f64::NAN.to_bits(),
        (FloatTy::F32, _) => f32::INFINITY.to_bits() as u64,
        (FloatTy::F64, _) => f64::INFINITY.to_bits(),
    };
    let v = T::from_b(bits);
    let bound = T::FORMATTED_SIZE_DECIMAL;
    arena.arm(bound);
    let r = {
        let buf = arena.buf(bound);
        guarded(|| lexical_core::write_with_options::<T, STD>(v, buf, &opts).len())
    };
    if let Some(off) = arena.damaged(bound) {
        out.fail("C09", format!("byte at offset {} outside the caller's slice was overwritten", off));
    }
    match r {
        Err(_) => {
            out.caught_panic = true;
            out.record = "panic".into();
        },
        Ok(n) => {
            out.record = format!("wrote {}", n);
            out.fail("C15", format!("writing a special whose string is disabled emitted {} bytes instead of panicking", n));
        },
    }
    // the facade makes the same documented panic while it holds whatever it holds; later calls must not care
    if let Ok(st) = guarded(|| lexical::to_string_with_options::<T, STD>(v, &opts)) {
        out.fail("C17", format!("lexical::to_string_with_options returned \"{}\" where lexical_core panics (special string disabled)", show_text(st.as_bytes())));
    }
}

fn exec_wfloat_breaks<T: SimFloat>(ty: FloatTy, bits: u64, idx: u8, arena: &mut Arena, out: &mut OpResult) {
    const STD: u128 = lexical_core::format::STANDARD;
    let (nb, pb) = BREAK_POOL[idx as usize];
    let opts = match WriteFloatOptions::builder()
        .negative_exponent_break(core::num::NonZeroI32::new(nb))
        .positive_exponent_break(core::num::NonZeroI32::new(pb))
        .build()
    {
        Ok(o) => o,
        Err(e) => {
            out.fail("HARNESS", format!("break options rejected: {:?}", e));
            return;
        },
    };
    let bound = opts.buffer_size_const::<T, STD>();
    if bound > CAP {
        out.fail("HARNESS", format!("buffer_size_const {} exceeds arena", bound));
        return;
    }
    let v = T::from_b(bits);
    arena.arm(bound);
    let r = {
        let buf = arena.buf(bound);
        let start = buf.as_ptr() as usize;
        guarded(|| {
            let w = lexical_core::write_with_options::<T, STD>(v, buf, &opts);
            (w.as_ptr() as usize - start, w.len())
        })
    };
    if let Some(off) = arena.damaged(bound) {
        out.fail("C09", format!("byte at offset {} relative to the caller's {}-byte slice was overwritten", off, bound));
    }
    let (off, n) = match r {
        Err(p) => {
            out.caught_panic = true;
            out.record = "panic".into();
            out.fail("C09", format!("panicked with a buffer of exactly buffer_size_const = {} bytes: {}", bound, p));
            return;
        },
        Ok(x) => x,
    };
    let got = arena.buf(bound)[..n.min(bound)].to_vec();
    let text = String::from_utf8_lossy(&got).into_owned();
    out.record = text.clone();
    if off != 0 || n > bound {
        out.fail("C09", format!("returned slice is not a prefix within the bound (offset {}, len {}, bound {})", off, n, bound));
    }
    if !is_ascii(&got) {
        out.fail("C17", format!("writer emitted non-ASCII bytes {:x?}", got));
    }
    if ty.is_finite(bits) {
        if !well_formed_float(&got, 10, b'e') {
            out.fail("C02", format!("output \"{}\" is not a well-formed decimal float", text));
        } else {
            match ty.std_parse(&text) {
                Some(b) if b == bits => {},
                other => out.fail("C02", format!("output \"{}\" denotes {:x?}, not the written {:#x}", text, other, bits)),
            }
        }
        match guarded(|| lexical_core::parse::<T>(&got)) {
            Ok(Ok(b)) if b.to_b() == bits => {},
            Ok(r) => out.fail("C08", format!("written \"{}\" parsed back as {}", text, show_f(&r))),
            Err(m) => out.fail("C08", format!("parser panicked on written \"{}\": {}", text, m)),
        }
    }
    match guarded(|| lexical::to_string_with_options::<T, STD>(v, &opts)) {
        Ok(st) if st.as_bytes() == &got[..] => {},
        Ok(st) => out.fail("C17", format!("lexical::to_string_with_options returned \"{}\", core wrote \"{}\"", show_text(st.as_bytes()), text)),
        Err(m) => {
            out.caught_panic = true;
            facade_write_panicked(out, &format!("lexical::to_string_with_options panicked: {}", m))
        },
    }
}

fn exec_pnan_custom<T: SimFloat>(ty: FloatTy, idx: u8, text: u8, input: &[u8], out: &mut OpResult) {
    const STD: u128 = lexical_core::format::STANDARD;
    let cfg: &'static [u8] = PNAN_POOL[idx as usize];
    let _ = text;
    // deliberately a plain local: every call of this function builds its options at the same address
    let built = if (idx as usize + text as usize) % 2 == 0 {
        ParseFloatOptions::builder().nan_string(Some(cfg)).build()
    } else {
        // a long-lived options value reconfigured in place through the (deprecated, still public) setters
        #[allow(deprecated)]
        {
            let mut o = ParseFloatOptions::new();
            o.set_nan_string(Some(b"NaN"));
            o.set_nan_string(None);
            o.set_nan_string(Some(cfg));
            if o.is_valid() {
                Ok(o)
            } else {
                Err(lexical_core::Error::InvalidNanString)
            }
        }
    };
    let opts = match built {
        Ok(o) => o,
        Err(e) => {
            out.fail("C18", format!("valid NaN string \"{}\" rejected: {:?}", show_text(cfg), e));
            return;
        },
    };
    let c = guarded(|| lexical_core::parse_with_options::<T, STD>(input, &opts));
    let p = guarded(|| lexical_core::parse_partial_with_options::<T, STD>(input, &opts));
    let (c, p) = match (c, p) {
        (Ok(c), Ok(p)) => (c, p),
        (c, p) => {
            out.caught_panic = true;
            out.fail("C10", format!("parser panicked: {}", c.err().or(p.err()).unwrap_or_default()));
            return;
        },
    };
    out.record = format!(
        "{} {}",
        match &c {
            Ok(v) => format!("Ok({:#x})", canon_nan(ty, v.to_b())),
            Err(e) => format!("Err({:?})", e),
        },
        match &p {
            Ok((v, n)) => format!("Ok({:#x},{})", canon_nan(ty, v.to_b()), n),
            Err(e) => format!("Err({:?})", e),
        }
    );
    let body = match input.first() {
        Some(b'+') | Some(b'-') => &input[1..],
        _ => input,
    };
    let is_nan_text = body.eq_ignore_ascii_case(cfg);
    let is_inf_text = body.eq_ignore_ascii_case(b"inf") || body.eq_ignore_ascii_case(b"infinity");
    match &c {
        Ok(v) if is_nan_text && ty.is_nan(v.to_b()) => {},
        Ok(v) if is_inf_text && ty.is_inf(v.to_b()) => {},
        Err(_) if !is_nan_text && !is_inf_text => {},
        r => out.fail(
            "C15",
            format!(
                "with nan_string \"{}\", input \"{}\" gave {} (expected {})",
                show_text(cfg),
                show_text(input),
                show_f(r),
                if is_nan_text {
                    "NaN"
                } else if is_inf_text {
                    "infinity"
                } else {
                    "rejection"
                }
            ),
        ),
    }
    match (&c, &p) {
        (Ok(v), Ok((w, n))) if canon_nan(ty, v.to_b()) == canon_nan(ty, w.to_b()) && *n == input.len() => {},
        (Ok(_), _) => out.fail("C11", format!("complete {} but partial {}", show_f(&c), show_fp(&p))),
        (Err(_), Ok((_, n))) if *n == input.len() => {
            out.fail("C11", format!("complete {} but partial consumed everything: {}", show_f(&c), show_fp(&p)))
        },
        _ => {},
    }
}

fn exec_wfloat_digits<T: SimFloat>(ty: FloatTy, bits: u64, max: u8, arena: &mut Arena, out: &mut OpResult) {
    const STD: u128 = lexical_core::format::STANDARD;
    let opts = match WriteFloatOptions::builder().max_significant_digits(core::num::NonZeroUsize::new(max as usize)).build() {
        Ok(o) => o,
        Err(e) => {
            out.fail("HARNESS", format!("digit options rejected: {:?}", e));
            return;
        },
    };
    let bound = opts.buffer_size_const::<T, STD>();
    if bound > CAP {
        out.fail("HARNESS", format!("buffer_size_const {} exceeds arena", bound));
        return;
    }
    let v = T::from_b(bits);
    arena.arm(bound);
    let r = {
        let buf = arena.buf(bound);
        let start = buf.as_ptr() as usize;
        guarded(|| {
            let w = lexical_core::write_with_options::<T, STD>(v, buf, &opts);
            (w.as_ptr() as usize - start, w.len())
        })
    };
    if let Some(off) = arena.damaged(bound) {
        out.fail("C09", format!("byte at offset {} relative to the caller's {}-byte slice was overwritten", off, bound));
    }
    let (off, n) = match r {
        Err(p) => {
            out.caught_panic = true;
            out.record = "panic".into();
            // class named by a known finding: compact builds assert "no trailing zeros" on digits that a
            // digit limit has just rounded (debug-assertion builds only)
            let tag = if is_compact() && p.contains("rtrim_char_count") {
                "compact-digit-limit-trailing-zero-assert"
            } else {
                ""
            };
            out.fail_tagged("C09", tag, format!("panicked with a buffer of exactly buffer_size_const = {} bytes: {}", bound, p));
            return;
        },
        Ok(x) => x,
    };
    let got = arena.buf(bound)[..n.min(bound)].to_vec();
    let text = String::from_utf8_lossy(&got).into_owned();
    out.record = text.clone();
    if off != 0 || n > bound {
        out.fail("C09", format!("returned slice is not a prefix within the bound (offset {}, len {}, bound {})", off, n, bound));
    }
    if !is_ascii(&got) {
        out.fail("C17", format!("writer emitted non-ASCII bytes {:x?}", got));
    }
    if ty.is_finite(bits) {
        if !well_formed_float(&got, 10, b'e') {
            out.fail("C14", format!("output \"{}\" is not a well-formed decimal float", text));
        } else {
            let nd = significant_digits(&got, 10, b'e');
            if nd > max as usize {
                out.fail("C14", format!("output \"{}\" has {} significant digits, max_significant_digits = {}", text, nd, max));
            }
            // what lexical wrote, lexical parses to what the text denotes (C08 without the value claim)
            match (guarded(|| lexical_core::parse::<T>(&got)), ty.std_parse(&text)) {
                (Ok(Ok(b)), Some(w)) if b.to_b() == w => {},
                (r, w) => out.fail(
                    "C08",
                    format!("written \"{}\" parsed back as {:?}, the text denotes {:x?}", text, r.map(|x| x.map(|y| y.to_b())), w),
                ),
            }
        }
    }
    // the allocating facade formats into a fresh zeroed buffer; the caller's buffer is reused and dirty
    match guarded(|| lexical::to_string_with_options::<T, STD>(v, &opts)) {
        Ok(st) if st.as_bytes() == &got[..] => {},
        Ok(st) => out.fail(
            "C17",
            format!("lexical::to_string_with_options returned \"{}\", lexical_core wrote \"{}\" into the caller's buffer", show_text(st.as_bytes()), text),
        ),
        Err(m) => {
            out.caught_panic = true;
            facade_write_panicked(out, &format!("lexical::to_string_with_options panicked: {}", m))
        },
    }
}

fn exec_pinf_custom<T: SimFloat>(ty: FloatTy, idx: u8, text: u8, input: &[u8], out: &mut OpResult) {
    const STD: u128 = lexical_core::format::STANDARD;
    let (short, long): (&'static [u8], &'static [u8]) = PINF_POOL[idx as usize];
    let _ = text;
    let opts = match ParseFloatOptions::builder().inf_string(Some(short)).infinity_string(Some(long)).build() {
        Ok(o) => o,
        Err(e) => {
            out.fail("C18", format!("valid infinity strings \"{}\"/\"{}\" rejected: {:?}", show_text(short), show_text(long), e));
            return;
        },
    };
    let c = guarded(|| lexical_core::parse_with_options::<T, STD>(input, &opts));
    let p = guarded(|| lexical_core::parse_partial_with_options::<T, STD>(input, &opts));
    let (c, p) = match (c, p) {
        (Ok(c), Ok(p)) => (c, p),
        (c, p) => {
            out.caught_panic = true;
            out.fail("C10", format!("parser panicked: {}", c.err().or(p.err()).unwrap_or_default()));
            return;
        },
    };
    out.record = format!(
        "{} {}",
        match &c {
            Ok(v) => format!("Ok({:#x})", canon_nan(ty, v.to_b())),
            Err(e) => format!("Err({:?})", e),
        },
        match &p {
            Ok((v, n)) => format!("Ok({:#x},{})", canon_nan(ty, v.to_b()), n),
            Err(e) => format!("Err({:?})", e),
        }
    );
    match &p {
        Ok((_, n)) if *n > input.len() => out.fail("C10", format!("partial parse consumed {} > input length {}", n, input.len())),
        _ => {},
    }
    let (neg, body) = match input.first() {
        Some(b'-') => (true, &input[1..]),
        Some(b'+') => (false, &input[1..]),
        _ => (false, input),
    };
    let is_inf_text = body.eq_ignore_ascii_case(short) || body.eq_ignore_ascii_case(long);
    let is_nan_text = body.eq_ignore_ascii_case(b"nan");
    match &c {
        Ok(v) if is_inf_text && ty.is_inf(v.to_b()) && ty.sign(v.to_b()) == neg => {},
        Ok(v) if is_nan_text && ty.is_nan(v.to_b()) => {},
        Err(_) if !is_inf_text && !is_nan_text => {},
        r => out.fail(
            "C15",
            format!(
                "with inf_string \"{}\" / infinity_string \"{}\", input \"{}\" gave {} (expected {})",
                show_text(short),
                show_text(long),
                show_text(input),
                show_f(r),
                if is_inf_text {
                    "a correctly signed infinity"
                } else {
                    "rejection"
                }
            ),
        ),
    }
    match (&c, &p) {
        (Ok(v), Ok((w, n))) if canon_nan(ty, v.to_b()) == canon_nan(ty, w.to_b()) && *n == input.len() => {},
        (Ok(_), _) => out.fail("C11", format!("complete {} but partial {}", show_f(&c), show_fp(&p))),
        (Err(_), Ok((_, n))) if *n == input.len() => {
            out.fail("C11", format!("complete {} but partial consumed everything: {}", show_f(&c), show_fp(&p)))
        },
        _ => {},
    }
}

fn exec_nan_custom<T: SimFloat>(ty: FloatTy, idx: u8, arena: &mut Arena, out: &mut OpResult) {
    const STD: u128 = lexical_core::format::STANDARD;
    let s: &'static [u8] = NAN_POOL[idx as usize];
    let built = guarded(|| WriteFloatOptions::builder().nan_string(Some(s)).build());
    let opts = match built {
        Ok(Ok(o)) => o,
        Ok(Err(e)) => {
            out.record = format!("rejected {:?}", e);
            if is_ascii(s) && s.iter().all(|c| c.is_ascii_alphabetic()) && (s[0] == b'n' || s[0] == b'N') {
                out.fail("C18", format!("valid NaN string \"{}\" rejected: {:?}", show_text(s), e));
            }
            return;
        },
        Err(m) => {
            out.caught_panic = true;
            out.fail("C18", format!("options builder panicked: {}", m));
            return;
        },
    };
    let bits = match ty {
        FloatTy::F32 => f32::NAN.to_bits() as u64,
        FloatTy::F64 => f64::NAN.to_bits(),
    };
    let v = T::from_b(bits);
    let bound = T::FORMATTED_SIZE_DECIMAL;
    arena.arm(bound);
    let r = {
        let buf = arena.buf(bound);
        guarded(|| lexical_core::write_with_options::<T, STD>(v, buf, &opts).len())
    };
    if let Some(off) = arena.damaged(bound) {
        out.fail("C09", format!("byte at offset {} outside the caller's slice was overwritten", off));
    }
    match r {
        Err(m) => {
            out.caught_panic = true;
            out.record = "panic".into();
            out.fail("C15", format!("writing NaN with an accepted custom string panicked: {}", m));
        },
        Ok(n) => {
            let got = arena.buf(bound)[..n.min(bound)].to_vec();
            out.record = show_text(&got);
            if !is_ascii(&got) {
                out.fail(
                    "C17",
                    format!("writer emitted non-ASCII bytes {:x?} under options the builder accepted as valid", got),
                );
            }
            if got != s {
                out.fail("C15", format!("NaN written as \"{}\", configured string is \"{}\"", show_text(&got), show_text(s)));
            }
            if is_ascii(&got) {
                match guarded(|| lexical::to_string_with_options::<T, STD>(v, &opts)) {
                    Ok(st) if st.as_bytes() == &got[..] => {},
                    Ok(st) => out.fail("C17", format!("lexical::to_string_with_options returned \"{}\", core wrote \"{}\"", show_text(st.as_bytes()), show_text(&got))),
                    Err(m) => facade_write_panicked(out, &format!("lexical::to_string_with_options panicked: {}", m)),
                }
            }
        },
    }
}

/// Execute one call on this worker's arena and judge it against the reference model.
pub fn exec(op: &Op, arena: &mut Arena) -> OpResult {
    exec_mode(op, arena, false)
}

/// What Rust's own parser says about a decimal float text (fills `expect` before a run under the
/// interpreter, where calling it per op would dominate the run time).
pub fn std_expectation(ty: FloatTy, text: &[u8]) -> Option<u64> {
    if is_plain_decimal_float(text) {
        std::str::from_utf8(text).ok().and_then(|s| ty.std_parse(s))
    } else {
        None
    }
}

pub fn exec_mode(op: &Op, arena: &mut Arena, lite: bool) -> OpResult {
    let mut out = OpResult::default();
    match op {
        Op::WInt {
            ty,
            radix,
            neg,
            mag,
            short,
        } => int_dispatch!(*ty, T => radix_dispatch!(*radix, F => exec_wint::<T, F>(*radix, *neg, *mag, *short, arena, &mut out))),
        Op::PInt {
            ty,
            radix,
            text,
        } => {
            let r = arena.stage_input(text);
            let input = arena.input(r);
            int_dispatch!(*ty, T => radix_dispatch!(*radix, F => exec_pint::<T, F>(*ty, *radix, input, &mut out)))
        },
        Op::PFloat {
            ty,
            text,
            expect,
        } => {
            let r = arena.stage_input(text);
            let input = arena.input(r);
            float_dispatch!(*ty, T => exec_pfloat::<T>(*ty, input, *expect, lite, &mut out))
        },
        Op::WFloat {
            ty,
            bits,
            short,
        } => float_dispatch!(*ty, T => exec_wfloat::<T>(*ty, *bits, *short, arena, &mut out)),
        #[cfg(any(feature = "pow2", feature = "radix"))]
        Op::WFloatR {
            ty,
            radix,
            bits,
            brk,
        } => float_dispatch!(*ty, T => float_radix_dispatch!(*radix, F => exec_wfloat_r::<T, F>(*ty, *radix, *bits, *brk, arena, &mut out))),
        #[cfg(any(feature = "pow2", feature = "radix"))]
        Op::PFloatR {
            ty,
            radix,
            text,
            expect,
        } => {
            let r = arena.stage_input(text);
            let input = arena.input(r);
            float_dispatch!(*ty, T => float_radix_dispatch!(*radix, F => exec_pfloat_r::<T, F>(*radix, input, *expect, &mut out)))
        },
        #[cfg(not(any(feature = "pow2", feature = "radix")))]
        Op::WFloatR {
            ..
        }
        | Op::PFloatR {
            ..
        } => panic!("HARNESS: radix float op in a decimal-only build"),
        Op::WSpecialOff {
            ty,
            which,
        } => float_dispatch!(*ty, T => exec_special_off::<T>(*ty, *which, arena, &mut out)),
        Op::WNanCustom {
            ty,
            idx,
        } => float_dispatch!(*ty, T => exec_nan_custom::<T>(*ty, *idx, arena, &mut out)),
        Op::WFloatBreaks {
            ty,
            bits,
            idx,
        } => float_dispatch!(*ty, T => exec_wfloat_breaks::<T>(*ty, *bits, *idx, arena, &mut out)),
        Op::WFloatDigits {
            ty,
            bits,
            max,
        } => float_dispatch!(*ty, T => exec_wfloat_digits::<T>(*ty, *bits, *max, arena, &mut out)),
        Op::PNanCustom {
            ty,
            idx,
            text,
        } => {
            let r = arena.stage_input(PNAN_TEXTS[*text as usize]);
            let input = arena.input(r);
            float_dispatch!(*ty, T => exec_pnan_custom::<T>(*ty, *idx, *text, input, &mut out))
        },
        Op::PInfCustom {
            ty,
            idx,
            text,
        } => {
            let r = arena.stage_input(PINF_TEXTS[*text as usize]);
            let input = arena.input(r);
            float_dispatch!(*ty, T => exec_pinf_custom::<T>(*ty, *idx, *text, input, &mut out))
        },
    }
    out
}
