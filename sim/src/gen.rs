//! Workload and fault-schedule generation: a pure function of (seed, focus, build, flags).
//! Per-run "swarm" configuration keeps the hot key sets (types, radices, exponent magnitudes)
//! small so that any cross-call state that exists is hit again and collides.

use crate::ops::*;
use crate::refmodel::*;
use crate::rng::Rng;

#[derive(Clone, Debug, PartialEq)]
pub enum Event {
    Exec {
        t: usize,
        op: Op,
    },
    /// the worker thread exits (its thread-local state is destroyed); a fresh one replaces it
    Kill {
        t: usize,
    },
    /// the previous user of the worker's buffer left this byte pattern in it
    Poison {
        t: usize,
        pat: u8,
    },
    /// the worker exits, and *while it is exiting* a thread-local of the caller's that was first
    /// touched before any library call (so it is destroyed after any thread-local the library may
    /// own) makes this call from its destructor — a per-thread "flush on exit"
    ExitCall {
        t: usize,
        op: Op,
    },
    /// the worker's own code panics; while the thread is unwinding (`std::thread::panicking()` is
    /// true) a destructor of the caller's makes this call; the caller then catches its panic and
    /// the worker carries on
    UnwindCall {
        t: usize,
        op: Op,
    },
}

impl Event {
    pub fn encode(&self) -> String {
        match self {
            Event::Exec {
                t,
                op,
            } => format!("T{} {}", t, op.encode()),
            Event::Kill {
                t,
            } => format!("T{} KILL", t),
            Event::Poison {
                t,
                pat,
            } => format!("T{} POISON {}", t, pat),
            Event::ExitCall {
                t,
                op,
            } => format!("T{} EXITCALL {}", t, op.encode()),
            Event::UnwindCall {
                t,
                op,
            } => format!("T{} UNWINDCALL {}", t, op.encode()),
        }
    }
    pub fn decode(line: &str) -> Option<Event> {
        let line = line.trim();
        let (tt, rest) = line.split_once(' ')?;
        let t: usize = tt.strip_prefix('T')?.parse().ok()?;
        if rest == "KILL" {
            return Some(Event::Kill {
                t,
            });
        }
        if let Some(p) = rest.strip_prefix("POISON ") {
            return Some(Event::Poison {
                t,
                pat: p.trim().parse().ok()?,
            });
        }
        if let Some(o) = rest.strip_prefix("EXITCALL ") {
            return Some(Event::ExitCall {
                t,
                op: Op::decode(o)?,
            });
        }
        if let Some(o) = rest.strip_prefix("UNWINDCALL ") {
            return Some(Event::UnwindCall {
                t,
                op: Op::decode(o)?,
            });
        }
        Some(Event::Exec {
            t,
            op: Op::decode(rest)?,
        })
    }
}

#[derive(Clone, Debug)]
pub struct Swarm {
    pub threads: usize,
    pub n_events: usize,
    pub hot_int_tys: Vec<IntTy>,
    pub hot_radices: Vec<u8>,
    pub hot_float_radices: Vec<u8>,
    pub hot_exps: Vec<i32>,
    pub kill_permille: u64,
    pub poison_permille: u64,
    pub short_permille: u64,
    pub special_off_permille: u64,
    pub nan_custom_permille: u64,
    /// in this run the allocator refuses while a worker is inside a library parse call
    pub alloc_faults: bool,
    /// calls made from a destructor while the worker unwinds from its own panic
    pub unwind_permille: u64,
    /// in this run worker threads are spawned with a small stack (see ops::SMALL_STACK_BYTES)
    pub small_stack: bool,
    /// in this run the process's panic hook itself calls the library (a logging hook that formats numbers)
    pub hook_calls: bool,
    pub weights: [u64; 7],
    pub small: bool,
}

/// radices for which near-tie integer inputs are generated (see DESIGN §7.4 for why not all)
pub const TIE_RADICES: [u8; 5] = [2, 4, 16, 3, 5];

// generator kinds, index into Swarm.weights
const K_WINT: usize = 0;
const K_PINT: usize = 1;
const K_PFLOAT: usize = 2;
const K_WFLOAT: usize = 3;
const K_WFLOATR_P2: usize = 4;
const K_WFLOATR_GEN: usize = 5;
const K_PFLOATR: usize = 6;

pub const FOCI: [&str; 16] = [
    "all", "C01", "C02", "C03", "C04", "C05", "C06", "C07", "C08", "C09", "C10", "C11", "C15", "C16", "C17", "C19",
];

fn focus_weights(focus: &str) -> [u64; 7] {
    // main kinds get 8, the rest 1: the rest is what gives a run a history
    let mut w = [1u64; 7];
    let main: &[usize] = match focus {
        "C01" | "C19" | "C15" => &[K_PFLOAT],
        "C02" => &[K_WFLOAT],
        "C03" => &[K_WINT],
        "C04" => &[K_PINT],
        "C05" => &[K_PFLOATR],
        "C06" => &[K_WFLOATR_P2],
        "C07" => &[K_WFLOATR_GEN],
        "C08" => &[K_WINT, K_WFLOAT, K_WFLOATR_P2],
        "C09" => &[K_WINT, K_WFLOAT, K_WFLOATR_P2, K_WFLOATR_GEN],
        "C10" | "C11" => &[K_PINT, K_PFLOAT],
        "C17" => &[K_WINT, K_WFLOAT, K_PINT, K_PFLOAT],
        _ => &[K_WINT, K_PINT, K_PFLOAT, K_WFLOAT, K_WFLOATR_P2, K_WFLOATR_GEN, K_PFLOATR],
    };
    for &k in main {
        w[k] = 8;
    }
    w
}

pub struct GenFlags {
    /// only the default (decimal, STANDARD) API: identical workload in every build (C16)
    pub decimal_only: bool,
    /// keep texts short (for the interpreter-speed engine)
    pub small: bool,
    /// no fault events, full buffers only
    pub fault_free: bool,
}

pub fn swarm(seed: u64, focus: &str, flags: &GenFlags) -> Swarm {
    let mut r = Rng::fork(seed, 1);
    let threads = 1 + r.below(4) as usize;
    let n_events = if flags.small {
        12 + r.below(40) as usize
    } else {
        20 + r.below(220) as usize
    };
    let n_ty = 1 + r.below(4) as usize;
    let mut hot_int_tys = Vec::new();
    for _ in 0..n_ty {
        hot_int_tys.push(*r.pick(&ALL_INT_TYS));
    }
    let radices: Vec<u8> = if flags.decimal_only {
        vec![10]
    } else {
        let mut v = available_radices();
        // decimal stays likely even when 35 radices are available
        v.push(10);
        v.push(10);
        v
    };
    let n_rx = 1 + r.below(3) as usize;
    let mut hot_radices = Vec::new();
    for _ in 0..n_rx {
        hot_radices.push(*r.pick(&radices));
    }
    let fr = if flags.decimal_only {
        Vec::new()
    } else {
        float_radices()
    };
    let mut hot_float_radices = Vec::new();
    if !fr.is_empty() {
        let first = *r.pick(&fr);
        hot_float_radices.push(first);
        // related keys collide: half the time the other hot radices come from the same family
        // (powers of two / odd / even non-powers-of-two), which share code paths and tables
        let family = |x: u8| -> u8 {
            if x.is_power_of_two() {
                0
            } else if x % 2 == 1 {
                1
            } else {
                2
            }
        };
        for _ in 0..r.below(3) {
            let same: Vec<u8> = fr.iter().copied().filter(|x| family(*x) == family(first) && *x != first).collect();
            if !same.is_empty() && r.chance(1, 2) {
                hot_float_radices.push(*r.pick(&same));
            } else {
                hot_float_radices.push(*r.pick(&fr));
            }
        }
    }
    let n_exp = 1 + r.below(3) as usize;
    let mut hot_exps = Vec::new();
    for _ in 0..n_exp {
        let e = match r.below(4) {
            0 => r.below(20) as i32,
            1 => r.below(60) as i32,
            _ => r.below(320) as i32,
        };
        hot_exps.push(e);
    }
    let mut weights = focus_weights(focus);
    if flags.decimal_only || fr.is_empty() {
        weights[K_WFLOATR_P2] = 0;
        weights[K_WFLOATR_GEN] = 0;
        weights[K_PFLOATR] = 0;
    } else if !cfg!(feature = "radix") {
        weights[K_WFLOATR_GEN] = 0;
    }
    let faults = !flags.fault_free && r.chance(4, 5);
    Swarm {
        threads,
        n_events,
        hot_int_tys,
        hot_radices,
        hot_float_radices,
        hot_exps,
        kill_permille: if faults {
            r.below(40)
        } else {
            0
        },
        poison_permille: if faults {
            r.below(120)
        } else {
            0
        },
        short_permille: if faults {
            r.below(if focus == "C09" {
                400
            } else {
                80
            })
        } else {
            0
        },
        special_off_permille: if faults {
            r.below(if focus == "C15" || focus == "C17" || focus == "C09" {
                100
            } else {
                20
            })
        } else {
            0
        },
        alloc_faults: faults && r.chance(1, 3),
        unwind_permille: if faults {
            r.below(30)
        } else {
            0
        },
        small_stack: faults && r.chance(1, 4),
        hook_calls: faults && r.chance(1, 2),
        nan_custom_permille: match focus {
            "C15" | "C17" => 60,
            _ => 8,
        },
        weights,
        small: flags.small,
    }
}

// ---------------------------------------------------------------------------------------------
// integers

fn max_digits(ty: IntTy, radix: u8) -> usize {
    ref_write_int(false, ty.max_mag(), radix as u32).len()
}

fn clip(ty: IntTy, neg: bool, mag: u128) -> (bool, u128) {
    if neg && ty.signed() {
        let m = mag.min(ty.min_mag());
        (m != 0, m)
    } else {
        (false, mag.min(ty.max_mag()))
    }
}

pub fn gen_int_val(r: &mut Rng, ty: IntTy, radix: u8) -> (bool, u128) {
    let neg = ty.signed() && r.chance(1, 2);
    let lim = if neg {
        ty.min_mag()
    } else {
        ty.max_mag()
    };
    let mag = match r.below(10) {
        0 => r.below(21) as u128,
        1 => lim - r.below(3).min(lim as u64) as u128,
        2 | 3 => {
            // a power of the radix, or one either side: digit-count boundaries
            let mut p: u128 = 1;
            let k = r.below(max_digits(ty, radix) as u64 + 1);
            for _ in 0..k {
                p = match p.checked_mul(radix as u128) {
                    Some(x) if x <= lim => x,
                    _ => break,
                };
            }
            match r.below(3) {
                0 => p.saturating_sub(1),
                1 => p,
                _ => p.saturating_add(1),
            }
        },
        4 => {
            let b = r.below(ty.bits() as u64) as u32;
            let p = 1u128 << b;
            match r.below(3) {
                0 => p - 1,
                1 => p,
                _ => p.saturating_add(1),
            }
        },
        _ => {
            let bits = 1 + r.below(ty.bits() as u64) as u32;
            r.next_u128() >> (128 - bits)
        },
    };
    clip(ty, neg, mag)
}

/// digits (values) of `numeral + add` in `radix`
fn numeral_add(numeral: &[u8], radix: u32, add: u32) -> Vec<u8> {
    let mut d: Vec<u32> = numeral.iter().map(|&c| digit_val(c, radix).unwrap()).collect();
    let mut carry = add;
    for x in d.iter_mut().rev() {
        let t = *x + carry;
        *x = t % radix;
        carry = t / radix;
        if carry == 0 {
            break;
        }
    }
    let mut out = Vec::new();
    while carry != 0 {
        out.insert(0, digit_char(carry % radix));
        carry /= radix;
    }
    out.extend(d.iter().map(|&x| digit_char(x)));
    out
}

fn decorate(r: &mut Rng, neg: bool, mut digits: Vec<u8>) -> Vec<u8> {
    if r.chance(1, 3) {
        digits.make_ascii_lowercase();
    }
    if r.chance(1, 5) {
        let z = if r.chance(1, 4) {
            20 + r.below(41) as usize
        } else {
            1 + r.below(3) as usize
        };
        let mut v = vec![b'0'; z];
        v.extend_from_slice(&digits);
        digits = v;
    }
    let mut out = Vec::new();
    if neg {
        out.push(b'-');
    } else if r.chance(1, 6) {
        out.push(b'+');
    }
    out.extend_from_slice(&digits);
    out
}

const JUNK: [u8; 12] = [b' ', b'_', b'.', b'{', 0xff, b'e', b'-', b'+', b'/', b':', b'@', 0x00];

pub fn gen_pint_text(r: &mut Rng, ty: IntTy, radix: u8) -> Vec<u8> {
    let rx = radix as u32;
    let valid = |r: &mut Rng| {
        let (neg, mag) = gen_int_val(r, ty, radix);
        let digits = ref_write_int(false, mag, rx);
        decorate(r, neg, digits)
    };
    let boundary = |r: &mut Rng| {
        let neg = ty.signed() && r.chance(1, 2);
        let lim = if neg {
            ty.min_mag()
        } else {
            ty.max_mag()
        };
        let base = ref_write_int(false, lim, rx);
        let add = match r.below(4) {
            0 => 0,
            1 => 1,
            2 => 2,
            _ => rx - 1,
        };
        let mut digits = numeral_add(&base, rx, add);
        if r.chance(1, 4) {
            // one more digit after the boundary numeral
            digits.push(digit_char(r.below(rx as u64) as u32));
        }
        decorate(r, neg, digits)
    };
    match r.below(13) {
        0..=3 => valid(r),
        4 | 5 | 6 => boundary(r),
        7 => {
            let md = max_digits(ty, radix) as i64;
            let len = (md + r.range(-2, 3)).max(1) as usize;
            let mut d: Vec<u8> = (0..len).map(|_| digit_char(r.below(rx as u64) as u32)).collect();
            if d[0] == b'0' {
                d[0] = digit_char(1);
            }
            let neg = ty.signed() && r.chance(1, 2);
            decorate(r, neg, d)
        },
        8 => {
            let len = max_digits(ty, radix) * (1 + r.below(3) as usize) + r.below(4) as usize;
            let d: Vec<u8> = (0..len).map(|_| digit_char(r.below(rx as u64) as u32)).collect();
            let neg = ty.signed() && r.chance(1, 2);
            decorate(r, neg, d)
        },
        9 | 10 => {
            let mut t = if r.chance(1, 2) {
                valid(r)
            } else {
                boundary(r)
            };
            let pos = r.below(t.len() as u64 + 1) as usize;
            t.insert(pos, *r.pick(&JUNK));
            t
        },
        11 => {
            let pool: [&[u8]; 10] = [b"", b"+", b"-", b"+-", b"-+1", b" 1", b"1 ", b"--1", b"0", b"-0"];
            r.pick(&pool).to_vec()
        },
        _ => {
            let n = 1 + r.below(8) as usize;
            let alpha = b"0123456789abzAZ+-._ \xff";
            (0..n).map(|_| *r.pick(alpha)).collect()
        },
    }
}

// ---------------------------------------------------------------------------------------------
// floats

fn float_from_parts(ty: FloatTy, sign: bool, exp_field: u64, mant: u64) -> u64 {
    ((sign as u64) << (ty.total_bits() - 1)) | (exp_field << ty.mant_bits()) | (mant & ((1u64 << ty.mant_bits()) - 1))
}

fn max_exp_field(ty: FloatTy) -> u64 {
    (1u64 << ty.exp_bits()) - 1
}

fn bias(ty: FloatTy) -> i64 {
    (1i64 << (ty.exp_bits() - 1)) - 1
}

/// A finite float whose decimal exponent is near one of the run's hot magnitudes.
fn hot_finite(r: &mut Rng, ty: FloatTy, sw: &Swarm) -> u64 {
    let e10 = *r.pick(&sw.hot_exps) as i64
        * if r.chance(1, 2) {
            1
        } else {
            -1
        };
    let e2 = (e10 as f64 * 3.321928) as i64 + r.range(-4, 4);
    let field = (e2 + bias(ty)).clamp(0, max_exp_field(ty) as i64 - 1) as u64;
    let mant = match r.below(4) {
        0 => 0,
        1 => r.below(16),
        2 => ((1u64 << ty.mant_bits()) - 1) - r.below(16),
        _ => r.next_u64(),
    };
    float_from_parts(ty, r.chance(1, 2), field, mant)
}

pub fn gen_float_bits(r: &mut Rng, ty: FloatTy, sw: &Swarm) -> u64 {
    match r.below(10) {
        0 => {
            let sign = r.chance(1, 2);
            let mf = max_exp_field(ty);
            let mm = (1u64 << ty.mant_bits()) - 1;
            let (e, m) = *r.pick(&[
                (mf, 1u64 << (ty.mant_bits() - 1)),
                (mf, 0),
                (0, 0),
                (0, 1),
                (0, mm),
                (1, 0),
                (mf - 1, mm),
                (bias(ty) as u64, 0),
            ]);
            float_from_parts(ty, sign, e, m)
        },
        1 => {
            let v: f64 = match r.below(4) {
                0 => r.below(1000) as f64,
                1 => 10f64.powi(r.below(23) as i32),
                2 => 2f64.powi(r.below(60) as i32),
                _ => (r.next_u64() >> (11 + r.below(53))) as f64,
            };
            let v = if r.chance(1, 2) {
                -v
            } else {
                v
            };
            match ty {
                FloatTy::F32 => (v as f32).to_bits() as u64,
                FloatTy::F64 => v.to_bits(),
            }
        },
        2 => {
            let d = 1 + r.below(9999);
            let e = r.range(-30, 30);
            let s = format!("{}e{}", d, e);
            ty.std_parse(&s).unwrap()
        },
        _ => hot_finite(r, ty, sw),
    }
}

fn dec_minus_one(d: &str) -> String {
    // d is a positive decimal integer string
    let mut b: Vec<u8> = d.bytes().collect();
    let mut i = b.len();
    loop {
        i -= 1;
        if b[i] == b'0' {
            b[i] = b'9';
        } else {
            b[i] -= 1;
            break;
        }
    }
    String::from_utf8(b).unwrap()
}

fn place_point(r: &mut Rng, digits: &str, k: i64) -> String {
    // value = digits * 10^k ; optionally move a decimal point inside the digit string
    if digits.len() > 1 && r.chance(2, 3) {
        let p = 1 + r.below(digits.len() as u64 - 1) as usize;
        let shift = (digits.len() - p) as i64;
        format!("{}.{}e{}", &digits[..p], &digits[p..], k + shift)
    } else if k == 0 && r.chance(1, 2) {
        digits.to_string()
    } else {
        format!("{}e{}", digits, k)
    }
}

/// A decimal string exactly on / just above / just below the midpoint of two adjacent floats.
fn gen_tie(r: &mut Rng, ty: FloatTy, sw: &Swarm) -> (Vec<u8>, u64) {
    let variant = r.below(5);
    // for the truncated variants: the decimal exponent the text should end up with (one of the run's hot
    // magnitudes, either sign), and a float whose expansion can be cut there
    let target: Option<i64> = if variant >= 3 {
        let h = *r.pick(&sw.hot_exps) as i64;
        Some(if r.chance(1, 2) {
            h
        } else {
            -h
        })
    } else {
        None
    };
    let mut x;
    loop {
        x = match target {
            Some(t) if !sw.small => {
                let lim = match ty {
                    FloatTy::F64 => (-320, 305),
                    FloatTy::F32 => (-44, 37),
                };
                let e10 = (t + 19 + r.below(30) as i64).clamp(lim.0, lim.1);
                let e2 = (e10 as f64 * 3.321928) as i64 + r.range(-2, 2);
                let field = (e2 + bias(ty)).clamp(0, max_exp_field(ty) as i64 - 1) as u64;
                float_from_parts(ty, false, field, r.next_u64())
            },
            _ => ty.abs(hot_finite(r, ty, sw)),
        };
        if sw.small {
            // keep the exact expansion short: binary exponent near zero
            let field = (bias(ty) + r.range(-20, 20)) as u64;
            x = float_from_parts(ty, false, field, x);
        }
        if ty.is_finite(x) {
            break;
        }
    }
    let (m, e2) = ty.decompose(x);
    let (d, k) = dyadic_to_decimal(2 * m as u128 + 1, e2 - 1);
    let up = x + 1; // next float up (MAX + 1 is the bit pattern of infinity)
    let (digits, k, expect) = match variant {
        3 | 4 if d.len() > 24 => {
            // a truncation of the exact midpoint expansion to `keep` digits: strictly below the midpoint
            // (the dropped tail is non-zero), or — with the last kept digit bumped — strictly above it.
            // The dropped digits go into the exponent, which is steered to one of the run's hot magnitudes
            // when that is reachable, so that different calls share exponents.
            let n = d.len();
            // usually at least 20 digits are kept (more than any fast path takes); sometimes only 9-19, where a
            // parser may be tempted to go through a wider float type and round twice
            // (the kept digits must still pin the value to within half a unit in the last place of the midpoint:
            // 9 digits suffice for f32, 18 for f64)
            let mut keep = if r.chance(1, 5) {
                let lo = match ty {
                    FloatTy::F32 => 9,
                    FloatTy::F64 => 18,
                };
                (lo + r.below((20 - lo) as u64) as usize).min(n - 1)
            } else {
                20 + r.below((n - 21) as u64) as usize
            };
            if let Some(t) = target {
                // exponent after truncation = k + (n - keep)
                let want_keep = n as i64 - (t - k as i64);
                if keep >= 20 && want_keep >= 20 && want_keep < n as i64 && r.chance(3, 4) {
                    keep = want_keep as usize;
                }
            }
            let tail_nonzero = d[keep..].bytes().any(|c| c != b'0');
            let head = &d[..keep];
            let kk = k as i64 + (n - keep) as i64;
            if tail_nonzero && r.chance(1, 2) {
                (head.to_string(), kk, x)
            } else {
                // head + 1 unit in its last place  >  midpoint
                let bumped = {
                    let mut b: Vec<u8> = head.bytes().collect();
                    let mut i = b.len();
                    let mut carry = true;
                    while carry && i > 0 {
                        i -= 1;
                        if b[i] == b'9' {
                            b[i] = b'0';
                        } else {
                            b[i] += 1;
                            carry = false;
                        }
                    }
                    let mut st = String::from_utf8(b).unwrap();
                    if carry {
                        st.insert(0, '1');
                    }
                    st
                };
                (bumped, kk, up)
            }
        },
        0 | 3 => (
            d,
            k as i64,
            if m % 2 == 0 {
                x
            } else {
                up
            },
        ),
        1 | 4 => {
            // midpoint + epsilon.  Usually the epsilon is 1-3 digits further on; sometimes it sits just
            // beyond the number of digits any parser needs to keep (768 for f64, 113 for f32), where it
            // can only be noticed by scanning the truncated tail for a non-zero digit
            let keep_limit = match ty {
                FloatTy::F64 => 768usize,
                FloatTy::F32 => 113usize,
            };
            let far = !sw.small && r.chance(1, 4) && d.len() < keep_limit + 8;
            let j = if far {
                keep_limit + r.below(10) as usize - d.len().min(keep_limit) + 1
            } else {
                1 + r.below(3) as usize
            };
            // and the tail may run on with zeros after the epsilon digit
            let z = if far {
                r.below(48) as usize
            } else {
                0
            };
            (format!("{}{}1{}", d, "0".repeat(j - 1), "0".repeat(z)), k as i64 - j as i64 - z as i64, up)
        },
        _ => {
            let j = 1 + r.below(3) as usize;
            (format!("{}{}", dec_minus_one(&d), "9".repeat(j)), k as i64 - j as i64, x)
        },
    };
    let digits = digits.trim_start_matches('0').to_string();
    let digits = if digits.is_empty() {
        "0".to_string()
    } else {
        digits
    };
    let mut s = place_point(r, &digits, k);
    let neg = r.chance(1, 2);
    if neg {
        s.insert(0, '-');
    }
    let sign_bit = (neg as u64) << (ty.total_bits() - 1);
    (s.into_bytes(), expect | sign_bit)
}

const SPECIAL_POOL: [&[u8]; 36] = [
    b"nan", b"NaN", b"NAN", b"+nan", b"-NaN", b"inf", b"INF", b"-inf", b"+Inf", b"infinity", b"Infinity", b"-INFINITY",
    b"+infinity", b"infinit", b"infinityx", b"nanx", b"na", b"in", b"i", b"n", b"-0.0", b"-0", b"+0.0", b"0e0", b"-0e-5",
    b"0.0e400", b"-0.000", b"nan0",
    // letters of the special strings with bit 7 set, other look-alikes: none of these spells a special value
    b"\xee\xe1\xee", b"\xce\xe1\xce", b"\xe9\xee\xe6", b"in\xe6", b"-infinit\xf9", b"n\xe1n", b"NA\xce", b"\x0eAN",
];

const EDGE_POOL: [&[u8]; 22] = [
    b"1e400", b"1e-400", b"-1e400", b"0e99999999999999999999", b"1e18446744073709551616", b"1e-9223372036854775808",
    b"1e9223372036854775807", b"0.1e-9223372036854775807", b"1.25e-9223372036854775807", b"123456789012345678901234567890e-20",
    b"4.9406564584124654e-324", b"2.4703282292062327e-324", b"2.4703282292062328e-324", b"1.7976931348623157e308",
    b"1.7976931348623158e308", b"1.7976931348623159e308", b"3.4028235e38", b"3.4028236e38", b"1.1754942e-38", b"7e-46",
    b"9007199254740993", b"9007199254740992.5",
];

pub fn gen_pfloat(r: &mut Rng, ty: FloatTy, sw: &Swarm) -> (Vec<u8>, Option<u64>) {
    let shortest = |r: &mut Rng| -> Vec<u8> {
        let mut b;
        loop {
            b = gen_float_bits(r, ty, sw);
            if ty.is_finite(b) {
                break;
            }
        }
        let mut s = ty.std_shortest_sci(b);
        if r.chance(1, 4) {
            s = s.replace('e', "E");
        }
        if r.chance(1, 6) && !s.starts_with('-') {
            s.insert(0, '+');
        }
        if r.chance(1, 6) {
            s = s.replace("e", "e+").replace("e+-", "e-");
        }
        s.into_bytes()
    };
    match r.below(13) {
        0 | 1 | 2 => (shortest(r), None),
        3 | 4 | 5 | 6 => {
            let (t, e) = gen_tie(r, ty, sw);
            (t, Some(e))
        },
        7 => {
            let nd = if !sw.small && r.chance(1, 8) {
                100 + r.below(700) as usize
            } else {
                1 + r.below(40) as usize
            };
            let digits: String = (0..nd).map(|_| (b'0' + r.below(10) as u8) as char).collect();
            let e = *r.pick(&sw.hot_exps) as i64
                * if r.chance(1, 2) {
                    1
                } else {
                    -1
                }
                + r.range(-3, 3);
            let mut s = place_point(r, &digits, e - nd as i64);
            if r.chance(1, 2) {
                s.insert(0, '-');
            }
            (s.into_bytes(), None)
        },
        8 => {
            if r.chance(1, 3) {
                // exponents within a few units of where 64-, 32- and 16-bit accumulators end, with enough integer
                // or fraction digits to push the adjusted exponent over: the value is 0, inf, or decided by the mantissa
                let base: u128 = *r.pick(&[
                    i64::MAX as u128,
                    i64::MAX as u128 / 10,
                    1u128 << 63,
                    u64::MAX as u128,
                    i32::MAX as u128,
                    1u128 << 31,
                    u32::MAX as u128,
                    0x1000_0000u128,
                    1_000_000_000_000_000_000u128,
                    65536u128,
                ]);
                let e = if r.chance(1, 2) {
                    base.saturating_sub(r.below(48) as u128)
                } else {
                    base + r.below(12) as u128
                };
                let zeros = "0".repeat(r.below(if sw.small { 8 } else { 45 }) as usize);
                let nz = 1 + r.below(999);
                let mant = match r.below(4) {
                    0 => format!("0.{}{}", zeros, nz),
                    1 => format!("{}{}", nz, zeros),
                    2 => format!("{}.{}{}", r.below(10), zeros, r.below(10)),
                    _ => format!("{}", r.below(3)),
                };
                let s = format!(
                    "{}{}e{}{}",
                    if r.chance(1, 3) { "-" } else { "" },
                    mant,
                    if r.chance(1, 2) { "-" } else if r.chance(1, 2) { "+" } else { "" },
                    e
                );
                (s.into_bytes(), None)
            } else if r.chance(1, 2) {
                (r.pick(&EDGE_POOL).to_vec(), None)
            } else {
                let z = if sw.small {
                    r.below(30)
                } else {
                    r.below(400)
                } as usize;
                let s = match r.below(3) {
                    0 => format!("0.{}1", "0".repeat(z)),
                    1 => format!("1{}", "0".repeat(z)),
                    _ => format!("{}123.5", "0".repeat(z)),
                };
                (s.into_bytes(), None)
            }
        },
        9 if r.chance(1, 2) => {
            // signed zeros spelled with arbitrary exponents and zero runs (sign of zero must survive)
            let e = *r.pick(&sw.hot_exps) as i64
                * if r.chance(1, 2) {
                    1
                } else {
                    -1
                }
                + r.range(-3, 3);
            let z = "0".repeat(1 + r.below(if sw.small { 6 } else { 40 }) as usize);
            let body = match r.below(4) {
                0 => format!("0e{}", e),
                1 => format!("0.{}e{}", z, e),
                2 => format!("{}.0e{}", z, e),
                _ => format!("0.{}", z),
            };
            let s = if r.chance(2, 3) {
                format!("-{}", body)
            } else {
                body
            };
            (s.into_bytes(), None)
        },
        9 => (r.pick(&SPECIAL_POOL).to_vec(), None),
        10 => {
            let mut t = shortest(r);
            let pos = r.below(t.len() as u64 + 1) as usize;
            t.insert(pos, *r.pick(&JUNK));
            (t, None)
        },
        11 => {
            let n = r.below(11) as usize;
            let alpha = b"0123456789+-.eE";
            ((0..n).map(|_| *r.pick(alpha)).collect(), None)
        },
        _ => {
            let n = r.below(9) as usize;
            let alpha = b"0189+-.eEnNaAiIfF_ \xff\x00";
            ((0..n).map(|_| *r.pick(alpha)).collect(), None)
        },
    }
}

/// Finite, comfortably inside the normal range (the extremes of generic-radix output are outside
/// what this workload exercises).
fn gen_moderate_bits(r: &mut Rng, ty: FloatTy, sw: &Swarm) -> u64 {
    let span = match ty {
        FloatTy::F64 => 1021,
        FloatTy::F32 => 125,
    };
    loop {
        let b = match r.below(4) {
            0 => gen_float_bits(r, ty, sw),
            _ => hot_finite(r, ty, sw),
        };
        if !ty.is_finite(b) {
            continue;
        }
        let field = ((b >> ty.mant_bits()) & max_exp_field(ty)) as i64;
        if ty.abs(b) == 0 || (field != 0 && (field - bias(ty)).abs() <= span) {
            return b;
        }
    }
}

/// An integer exactly on / one below / one above the midpoint of two adjacent floats, written in
/// `radix`: hundreds of digits that only the moderate and slow paths of the radix parser can decide.
#[allow(dead_code)]
fn gen_pfloat_r_tie(r: &mut Rng, ty: FloatTy, radix: u8, sw: &Swarm) -> Option<(Vec<u8>, u64)> {
    // a float >= 2, so that the midpoint (2m+1) * 2^(e2-1) is an integer
    let mb = ty.mant_bits() as i64;
    let max_e2 = if sw.small {
        8
    } else {
        (max_exp_field(ty) as i64 - 2) - bias(ty) - mb
    };
    let e2 = 1 + r.below(max_e2.max(1) as u64) as i64;
    let field = (e2 + mb + bias(ty)) as u64;
    let mant = match r.below(4) {
        0 => 0,
        1 => r.below(8),
        2 => ((1u64 << ty.mant_bits()) - 1) - r.below(8),
        _ => r.next_u64(),
    };
    let x = float_from_parts(ty, false, field, mant);
    if !ty.is_finite(x) {
        return None;
    }
    let (m, e2) = ty.decompose(x);
    if e2 < 1 {
        return None;
    }
    let mut n = BigNat::from_u128(2 * m as u128 + 1);
    n.mul_pow(2, (e2 - 1) as u32);
    let up = x + 1;
    let expect = match r.below(3) {
        0 => {
            if m % 2 == 0 {
                x
            } else {
                up
            }
        },
        1 => {
            n.add_small(1);
            up
        },
        _ => {
            n.sub_one();
            x
        },
    };
    let neg = r.chance(1, 2);
    let mut t = Vec::new();
    if neg {
        t.push(b'-');
    }
    t.extend_from_slice(&n.to_radix(radix as u32));
    if r.chance(1, 3) {
        t.make_ascii_lowercase();
    }
    Some((t, expect | ((neg as u64) << (ty.total_bits() - 1))))
}

#[allow(dead_code)]
/// In radices of 24 and above the letters of "inf" and "nan" are digits: these inputs are ordinary
/// numbers there (every character a digit of `radix`), whatever they happen to spell.
const SPELL_POOL: [&[u8]; 18] = [
    b"inf", b"nan", b"NaN", b"Inf", b"INF", b"NAN", b"infinity", b"Infinity", b"INFINITY", b"inf0", b"nan0", b"in", b"na", b"i", b"n",
    b"infinit", b"nani", b"0inf",
];

#[allow(dead_code)]
fn gen_pfloat_r_spell(r: &mut Rng, ty: FloatTy, radix: u8) -> Option<(Vec<u8>, u64)> {
    let cands: Vec<&[u8]> = SPELL_POOL.iter().copied().filter(|t| t.iter().all(|&c| digit_val(c, radix as u32).is_some())).collect();
    if cands.is_empty() {
        return None;
    }
    let body = *r.pick(&cands);
    let mut v: u128 = 0;
    for &c in body {
        v = v * radix as u128 + digit_val(c, radix as u32).unwrap() as u128;
    }
    // integer-to-float conversion is correctly rounded (nearest, ties to even)
    let mag = match ty {
        FloatTy::F64 => (v as f64).to_bits(),
        FloatTy::F32 => (v as f32).to_bits() as u64,
    };
    let mut t = Vec::new();
    let neg = match r.below(4) {
        0 => {
            t.push(b'-');
            true
        },
        1 => {
            t.push(b'+');
            false
        },
        _ => false,
    };
    t.extend_from_slice(body);
    Some((t, mag | ((neg as u64) << (ty.total_bits() - 1))))
}

#[allow(dead_code)]
fn gen_pfloat_r(r: &mut Rng, ty: FloatTy, radix: u8) -> Option<(Vec<u8>, u64)> {
    if radix >= 24 && r.chance(1, 8) {
        return gen_pfloat_r_spell(r, ty, radix);
    }
    let rx = radix as u128;
    let lim: u128 = match ty {
        FloatTy::F64 => 1 << 53,
        FloatTy::F32 => 1 << 24,
    };
    let m = (r.next_u64() as u128 >> r.below(64)) % lim;
    let mut digits = ref_write_int(false, m, radix as u32);
    // fraction digits and explicit exponent, total scale radix^s with radix^|s| < lim
    let mut max_s = 0;
    let mut p: u128 = 1;
    while p * rx < lim {
        p *= rx;
        max_s += 1;
    }
    let frac = r.below((digits.len() as u64).min(max_s as u64 + 1)) as i64;
    let exp = r.range(-(max_s as i64 - frac).max(0), (max_s as i64).max(0));
    let s = exp - frac;
    if s.unsigned_abs() as u32 > max_s {
        return None;
    }
    let scale: u128 = rx.pow(s.unsigned_abs() as u32);
    let neg = r.chance(1, 2);
    let expect = match ty {
        FloatTy::F64 => {
            let v = if s >= 0 {
                m as f64 * scale as f64
            } else {
                m as f64 / scale as f64
            };
            if s >= 0 && (m * scale) >= (1u128 << 53) {
                return None;
            }
            (if neg {
                -v
            } else {
                v
            })
            .to_bits()
        },
        FloatTy::F32 => {
            let v = if s >= 0 {
                m as f32 * scale as f32
            } else {
                m as f32 / scale as f32
            };
            if s >= 0 && (m * scale) >= (1u128 << 24) {
                return None;
            }
            (if neg {
                -v
            } else {
                v
            })
            .to_bits() as u64
        },
    };
    if frac > 0 {
        let at = digits.len() - frac as usize;
        digits.insert(at, b'.');
        if at == 0 {
            digits.insert(0, b'0');
        }
    }
    let mut t = Vec::new();
    if neg {
        t.push(b'-');
    }
    t.extend_from_slice(&digits);
    if exp != 0 || r.chance(1, 3) {
        t.push(if radix >= 15 {
            b'^'
        } else {
            b'e'
        });
        t.extend_from_slice(&ref_write_int(exp < 0, exp.unsigned_abs() as u128, radix as u32));
    }
    Some((t, expect))
}

// ---------------------------------------------------------------------------------------------
// one op / one history

fn pick_weighted(r: &mut Rng, w: &[u64; 7]) -> usize {
    let total: u64 = w.iter().sum();
    let mut x = r.below(total);
    for (i, &wi) in w.iter().enumerate() {
        if x < wi {
            return i;
        }
        x -= wi;
    }
    0
}

fn fty(r: &mut Rng) -> FloatTy {
    if r.chance(1, 3) {
        FloatTy::F32
    } else {
        FloatTy::F64
    }
}

pub fn gen_op(r: &mut Rng, sw: &Swarm) -> Op {
    if r.below(1000) < sw.special_off_permille {
        return Op::WSpecialOff {
            ty: fty(r),
            which: r.below(2) as u8,
        };
    }
    if r.below(1000) < sw.nan_custom_permille / 2 {
        let hot = sw.hot_exps[0] as u64;
        let idx = ((hot + r.below(2)) % PINF_POOL.len() as u64) as u8;
        return Op::PInfCustom {
            ty: fty(r),
            idx,
            text: r.below(PINF_TEXTS.len() as u64) as u8,
        };
    }
    if r.below(1000) < sw.nan_custom_permille {
        // a run uses two or three of the custom strings, so the same options address sees different contents
        let hot = sw.hot_exps[0] as u64;
        let idx = ((hot + r.below(3)) % PNAN_POOL.len() as u64) as u8;
        // half the time a text that spells the configured string (any case, optional sign)
        let matching: Vec<u8> = (0..PNAN_TEXTS.len() as u8)
            .filter(|&i| {
                let t = PNAN_TEXTS[i as usize];
                let body = match t.first() {
                    Some(b'+') | Some(b'-') => &t[1..],
                    _ => t,
                };
                body.eq_ignore_ascii_case(PNAN_POOL[idx as usize])
            })
            .collect();
        let text = if !matching.is_empty() && r.chance(1, 2) {
            *r.pick(&matching)
        } else {
            r.below(PNAN_TEXTS.len() as u64) as u8
        };
        return Op::PNanCustom {
            ty: fty(r),
            idx,
            text,
        };
    }
    if r.below(1000) < sw.nan_custom_permille {
        return Op::WNanCustom {
            ty: fty(r),
            idx: r.below(NAN_POOL.len() as u64) as u8,
        };
    }
    let short = r.below(1000) < sw.short_permille;
    loop {
        match pick_weighted(r, &sw.weights) {
            K_WINT => {
                let ty = *r.pick(&sw.hot_int_tys);
                let radix = *r.pick(&sw.hot_radices);
                let (neg, mag) = gen_int_val(r, ty, radix);
                let short = if short {
                    let need = ref_write_int(neg, mag, radix as u32).len() as i64;
                    Some((need + r.range(-3, 1)).max(0) as usize)
                } else {
                    None
                };
                return Op::WInt {
                    ty,
                    radix,
                    neg,
                    mag,
                    short,
                };
            },
            K_PINT => {
                let ty = *r.pick(&sw.hot_int_tys);
                let radix = *r.pick(&sw.hot_radices);
                return Op::PInt {
                    ty,
                    radix,
                    text: gen_pint_text(r, ty, radix),
                };
            },
            K_PFLOAT => {
                let ty = fty(r);
                let (text, expect) = gen_pfloat(r, ty, sw);
                return Op::PFloat {
                    ty,
                    text,
                    expect,
                };
            },
            K_WFLOAT if r.chance(1, 7) => {
                // a digit limit; values include exact decimal ties at that digit count (a / 2^k)
                let ty = fty(r);
                let max = *r.pick(&[1u8, 2, 3, 4, 5, 8, 12, 15, 17]);
                let bits = if r.chance(1, 2) {
                    let a = (2 * r.below(1000) + 1) as f64;
                    let v = a / (1u64 << (1 + r.below(6))) as f64 * 10f64.powi(r.below(4) as i32);
                    let v = if r.chance(1, 2) {
                        -v
                    } else {
                        v
                    };
                    match ty {
                        FloatTy::F32 => (v as f32).to_bits() as u64,
                        FloatTy::F64 => v.to_bits(),
                    }
                } else {
                    gen_float_bits(r, ty, sw)
                };
                return Op::WFloatDigits {
                    ty,
                    bits,
                    max,
                };
            },
            K_WFLOAT if r.chance(1, 5) => {
                // custom exponent breaks, value steered to within a decade or two of a break point
                let ty = fty(r);
                let idx = r.below(BREAK_POOL.len() as u64) as u8;
                let (nb, pb) = BREAK_POOL[idx as usize];
                let bits = if r.chance(2, 3) {
                    let e10 = if r.chance(1, 2) {
                        nb as i64
                    } else {
                        pb as i64
                    } + r.range(-2, 2);
                    let lim = match ty {
                        FloatTy::F64 => (-323, 308),
                        FloatTy::F32 => (-45, 38),
                    };
                    let s = format!("{}{}e{}", if r.chance(1, 2) { "-" } else { "" }, 1 + r.below(9999), e10.clamp(lim.0, lim.1) - r.below(4) as i64);
                    ty.std_parse(&s).unwrap()
                } else {
                    gen_float_bits(r, ty, sw)
                };
                return Op::WFloatBreaks {
                    ty,
                    bits,
                    idx,
                };
            },
            K_WFLOAT => {
                let ty = fty(r);
                let bits = gen_float_bits(r, ty, sw);
                let short = if short {
                    Some(r.below(26) as usize)
                } else {
                    None
                };
                return Op::WFloat {
                    ty,
                    bits,
                    short,
                };
            },
            #[cfg(any(feature = "pow2", feature = "radix"))]
            k @ (K_WFLOATR_P2 | K_WFLOATR_GEN) => {
                let want_p2 = k == K_WFLOATR_P2;
                let cands: Vec<u8> =
                    sw.hot_float_radices.iter().copied().filter(|x| x.is_power_of_two() == want_p2).collect();
                let radix = if cands.is_empty() {
                    let all: Vec<u8> = float_radices().into_iter().filter(|x| x.is_power_of_two() == want_p2).collect();
                    if all.is_empty() {
                        continue;
                    }
                    *r.pick(&all)
                } else {
                    *r.pick(&cands)
                };
                let ty = fty(r);
                // one write in six is of an integer below 2^53 / 2^24 (every radix must write those exactly)
                let bits = if r.chance(1, 6) {
                    let neg = r.chance(1, 2);
                    match ty {
                        FloatTy::F64 => {
                            let v = ((r.next_u64() >> r.below(64)) % (1u64 << 53)) as f64;
                            (if neg { -v } else { v }).to_bits()
                        },
                        FloatTy::F32 => {
                            let v = ((r.next_u64() >> r.below(64)) % (1u64 << 24)) as f32;
                            (if neg { -v } else { v }).to_bits() as u64
                        },
                    }
                } else {
                    gen_moderate_bits(r, ty, sw)
                };
                // one write in five forces positional or exponent notation through custom exponent breaks
                // (power-of-two radices only: with a deep negative break the generic-radix writer of the unchanged
                // tree prints very small values as "0." or a run of zeros — DESIGN §7.4)
                let brk = if want_p2 && r.chance(1, 5) {
                    Some(r.below(BREAK_POOL.len() as u64) as u8)
                } else {
                    None
                };
                return Op::WFloatR {
                    ty,
                    radix,
                    bits,
                    brk,
                };
            },
            #[cfg(any(feature = "pow2", feature = "radix"))]
            K_PFLOATR => {
                if sw.hot_float_radices.is_empty() {
                    continue;
                }
                let radix = *r.pick(&sw.hot_float_radices);
                let ty = fty(r);
                let made = if TIE_RADICES.contains(&radix) && r.chance(1, 2) {
                    gen_pfloat_r_tie(r, ty, radix, sw)
                } else {
                    gen_pfloat_r(r, ty, radix)
                };
                if let Some((text, expect)) = made {
                    return Op::PFloatR {
                        ty,
                        radix,
                        text,
                        expect,
                    };
                }
            },
            _ => continue,
        }
    }
}

const POISON: [u8; 7] = [0x00, b'0', b'9', 0xff, b'z', b'.', b'-'];

/// The gated engine's history: who does what, in which order, with which faults in between.
pub fn gen_history(seed: u64, sw: &Swarm) -> Vec<Event> {
    let mut r = Rng::fork(seed, 2);
    let mut ev = Vec::with_capacity(sw.n_events);
    let mut issued: Vec<Op> = Vec::new();
    for _ in 0..sw.n_events {
        let t = r.below(sw.threads as u64) as usize;
        let x = r.below(1000);
        if x < sw.kill_permille {
            if r.chance(1, 2) {
                let op = gen_op(&mut r, sw);
                ev.push(Event::ExitCall {
                    t,
                    op,
                });
            } else {
                ev.push(Event::Kill {
                    t,
                });
            }
        } else if x < sw.kill_permille + sw.poison_permille {
            ev.push(Event::Poison {
                t,
                pat: *r.pick(&POISON),
            });
        } else if x < sw.kill_permille + sw.poison_permille + sw.unwind_permille {
            let op = gen_op(&mut r, sw);
            issued.push(op.clone());
            ev.push(Event::UnwindCall {
                t,
                op,
            });
        } else if !issued.is_empty() && r.chance(1, 25) {
            // an earlier input again with one digit in the middle changed: same buffer, same length, same head
            // and tail — whatever remembered the earlier record must not answer for this one
            let base = issued[r.below(issued.len() as u64) as usize].clone();
            let mutate = |r: &mut Rng, text: &[u8]| -> Option<Vec<u8>> {
                if text.len() < 12 {
                    return None;
                }
                let lo = text.len() / 3;
                let hi = text.len() - text.len() / 3;
                let cands: Vec<usize> = (lo..hi).filter(|&i| text[i].is_ascii_digit()).collect();
                if cands.is_empty() {
                    return None;
                }
                let i = *r.pick(&cands);
                let mut t = text.to_vec();
                t[i] = b'0' + ((t[i] - b'0') + 1 + r.below(8) as u8) % 10;
                Some(t)
            };
            let op = match &base {
                Op::PFloat {
                    ty,
                    text,
                    ..
                } => mutate(&mut r, text).map(|t| Op::PFloat {
                    ty: *ty,
                    text: t,
                    expect: None,
                }),
                Op::PInt {
                    ty,
                    radix: 10,
                    text,
                } => mutate(&mut r, text).map(|t| Op::PInt {
                    ty: *ty,
                    radix: 10,
                    text: t,
                }),
                _ => None,
            };
            let op = op.unwrap_or(base);
            issued.push(op.clone());
            ev.push(Event::Exec {
                t,
                op,
            });
        } else if !issued.is_empty() && r.chance(2, 25) {
            // the same call again, later, possibly from another worker: must give the same answer
            let op = issued[r.below(issued.len() as u64) as usize].clone();
            ev.push(Event::Exec {
                t,
                op,
            });
        } else {
            let op = gen_op(&mut r, sw);
            issued.push(op.clone());
            ev.push(Event::Exec {
                t,
                op: op.clone(),
            });
            // a long decimal record is, one time in four, followed at once — same worker, same line buffer,
            // same length, same head and tail — by a record that differs from it in one middle digit
            if let Op::PFloat {
                ty,
                text,
                ..
            } = &op
            {
                if text.len() >= 24 && r.chance(1, 4) {
                    let lo = text.len() / 3;
                    let hi = text.len() - text.len() / 3;
                    let cands: Vec<usize> = (lo..hi).filter(|&i| text[i].is_ascii_digit()).collect();
                    if !cands.is_empty() {
                        let i = *r.pick(&cands);
                        let mut t2 = text.clone();
                        t2[i] = b'0' + ((t2[i] - b'0') + 1 + r.below(8) as u8) % 10;
                        let op2 = Op::PFloat {
                            ty: *ty,
                            text: t2,
                            expect: None,
                        };
                        issued.push(op2.clone());
                        ev.push(Event::Exec {
                            t,
                            op: op2,
                        });
                    }
                }
            }
        }
    }
    ev
}

/// The free-running engine's workload: per-thread op lists; the first op of every thread uses the
/// same (type, radix) so that first use is contended.
pub fn gen_free(seed: u64, sw: &Swarm, threads: usize, ops_per_thread: usize) -> Vec<Vec<Op>> {
    let mut r = Rng::fork(seed, 3);
    let mut lists: Vec<Vec<Op>> = Vec::new();
    let lead = loop {
        let op = gen_op(&mut r, sw);
        if !matches!(op, Op::WSpecialOff { .. }) {
            break op;
        }
    };
    for t in 0..threads {
        let mut l = Vec::new();
        // same kind, type and radix for the first call of every thread, different value
        let first = if t == 0 || r.chance(1, 3) {
            lead.clone()
        } else {
            let mut tries = 0;
            loop {
                let op = gen_op(&mut r, sw);
                tries += 1;
                if op.kind() == lead.kind() || tries > 20 {
                    break op;
                }
            }
        };
        l.push(first);
        for _ in 1..ops_per_thread {
            l.push(gen_op(&mut r, sw));
        }
        lists.push(l);
    }
    lists
}
