//! The stateless reference model: what every call must return, whatever ran before it and
//! whatever runs beside it.  Nothing in here calls rust-lexical.

use std::fmt::Write as _;

#[derive(Clone, Copy, PartialEq, Eq, Debug, Hash)]
pub enum IntTy {
    U8,
    I8,
    U16,
    I16,
    U32,
    I32,
    U64,
    I64,
    U128,
    I128,
    Usize,
    Isize,
}

pub const ALL_INT_TYS: [IntTy; 12] = [
    IntTy::U8,
    IntTy::I8,
    IntTy::U16,
    IntTy::I16,
    IntTy::U32,
    IntTy::I32,
    IntTy::U64,
    IntTy::I64,
    IntTy::U128,
    IntTy::I128,
    IntTy::Usize,
    IntTy::Isize,
];

impl IntTy {
    pub fn name(self) -> &'static str {
        match self {
            IntTy::U8 => "u8",
            IntTy::I8 => "i8",
            IntTy::U16 => "u16",
            IntTy::I16 => "i16",
            IntTy::U32 => "u32",
            IntTy::I32 => "i32",
            IntTy::U64 => "u64",
            IntTy::I64 => "i64",
            IntTy::U128 => "u128",
            IntTy::I128 => "i128",
            IntTy::Usize => "usize",
            IntTy::Isize => "isize",
        }
    }
    pub fn from_name(s: &str) -> Option<IntTy> {
        ALL_INT_TYS.iter().copied().find(|t| t.name() == s)
    }
    pub fn bits(self) -> u32 {
        match self {
            IntTy::U8 | IntTy::I8 => 8,
            IntTy::U16 | IntTy::I16 => 16,
            IntTy::U32 | IntTy::I32 => 32,
            IntTy::U64 | IntTy::I64 => 64,
            IntTy::U128 | IntTy::I128 => 128,
            IntTy::Usize | IntTy::Isize => usize::BITS,
        }
    }
    pub fn signed(self) -> bool {
        matches!(
            self,
            IntTy::I8 | IntTy::I16 | IntTy::I32 | IntTy::I64 | IntTy::I128 | IntTy::Isize
        )
    }
    /// Largest magnitude of a non-negative value.
    pub fn max_mag(self) -> u128 {
        let b = self.bits() - self.signed() as u32;
        if b == 128 {
            u128::MAX
        } else {
            (1u128 << b) - 1
        }
    }
    /// Largest magnitude of a negative value (0 for unsigned).
    pub fn min_mag(self) -> u128 {
        if self.signed() {
            1u128 << (self.bits() - 1)
        } else {
            0
        }
    }
}

#[derive(Clone, Copy, PartialEq, Eq, Debug, Hash)]
pub enum FloatTy {
    F32,
    F64,
}

impl FloatTy {
    pub fn name(self) -> &'static str {
        match self {
            FloatTy::F32 => "f32",
            FloatTy::F64 => "f64",
        }
    }
    pub fn from_name(s: &str) -> Option<FloatTy> {
        match s {
            "f32" => Some(FloatTy::F32),
            "f64" => Some(FloatTy::F64),
            _ => None,
        }
    }
    pub fn mant_bits(self) -> u32 {
        match self {
            FloatTy::F32 => 23,
            FloatTy::F64 => 52,
        }
    }
    pub fn exp_bits(self) -> u32 {
        match self {
            FloatTy::F32 => 8,
            FloatTy::F64 => 11,
        }
    }
    pub fn max_sig_digits(self) -> usize {
        match self {
            FloatTy::F32 => 9,
            FloatTy::F64 => 17,
        }
    }
    pub fn total_bits(self) -> u32 {
        1 + self.exp_bits() + self.mant_bits()
    }
    pub fn is_nan(self, bits: u64) -> bool {
        let e = (bits >> self.mant_bits()) & ((1 << self.exp_bits()) - 1);
        let m = bits & ((1u64 << self.mant_bits()) - 1);
        e == (1 << self.exp_bits()) - 1 && m != 0
    }
    pub fn is_inf(self, bits: u64) -> bool {
        let e = (bits >> self.mant_bits()) & ((1 << self.exp_bits()) - 1);
        let m = bits & ((1u64 << self.mant_bits()) - 1);
        e == (1 << self.exp_bits()) - 1 && m == 0
    }
    pub fn is_finite(self, bits: u64) -> bool {
        !self.is_nan(bits) && !self.is_inf(bits)
    }
    pub fn sign(self, bits: u64) -> bool {
        (bits >> (self.total_bits() - 1)) & 1 == 1
    }
    pub fn abs(self, bits: u64) -> u64 {
        bits & !(1u64 << (self.total_bits() - 1))
    }
    /// (integer significand, binary exponent) with value = m * 2^e, for a finite value's magnitude.
    pub fn decompose(self, bits: u64) -> (u64, i32) {
        let mb = self.mant_bits();
        let e = ((bits >> mb) & ((1 << self.exp_bits()) - 1)) as i32;
        let m = bits & ((1u64 << mb) - 1);
        let bias = (1 << (self.exp_bits() - 1)) - 1 + mb as i32;
        if e == 0 {
            (m, 1 - bias)
        } else {
            (m | (1u64 << mb), e - bias)
        }
    }
    /// Distance in units in the last place between two finite values of the same type.
    pub fn ulp_distance(self, a: u64, b: u64) -> u64 {
        let key = |x: u64| -> i128 {
            let mag = self.abs(x) as i128;
            if self.sign(x) {
                -mag
            } else {
                mag
            }
        };
        (key(a) - key(b)).unsigned_abs() as u64
    }
    /// Parse with Rust's own correctly rounded `FromStr`; `None` if Rust rejects the text.
    pub fn std_parse(self, text: &str) -> Option<u64> {
        match self {
            FloatTy::F32 => text.parse::<f32>().ok().map(|v| v.to_bits() as u64),
            FloatTy::F64 => text.parse::<f64>().ok().map(|v| v.to_bits()),
        }
    }
    /// Rust's shortest round-tripping scientific form, e.g. "1.2345e-7".
    pub fn std_shortest_sci(self, bits: u64) -> String {
        match self {
            FloatTy::F32 => format!("{:e}", f32::from_bits(bits as u32)),
            FloatTy::F64 => format!("{:e}", f64::from_bits(bits)),
        }
    }
}

/// Digit character for a value 0..36 (upper case, as the writers emit).
pub fn digit_char(d: u32) -> u8 {
    if d < 10 {
        b'0' + d as u8
    } else {
        b'A' + (d - 10) as u8
    }
}

/// Value of a byte as a digit in `radix`, either case.
pub fn digit_val(c: u8, radix: u32) -> Option<u32> {
    let v = match c {
        b'0'..=b'9' => (c - b'0') as u32,
        b'a'..=b'z' => (c - b'a') as u32 + 10,
        b'A'..=b'Z' => (c - b'A') as u32 + 10,
        _ => return None,
    };
    if v < radix {
        Some(v)
    } else {
        None
    }
}

/// Canonical positional numeral (schoolbook division).
pub fn ref_write_int(neg: bool, mag: u128, radix: u32) -> Vec<u8> {
    let mut digits = Vec::new();
    let mut m = mag;
    if m == 0 {
        digits.push(b'0');
    }
    while m != 0 {
        digits.push(digit_char((m % radix as u128) as u32));
        m /= radix as u128;
    }
    if neg {
        digits.push(b'-');
    }
    digits.reverse();
    digits
}

#[derive(Clone, PartialEq, Eq, Debug)]
pub enum IntErr {
    Empty(usize),
    InvalidDigit(usize),
    Overflow(usize),
    Underflow(usize),
}

impl IntErr {
    pub fn show(&self) -> String {
        match self {
            IntErr::Empty(i) => format!("Empty({})", i),
            IntErr::InvalidDigit(i) => format!("InvalidDigit({})", i),
            IntErr::Overflow(i) => format!("Overflow({})", i),
            IntErr::Underflow(i) => format!("Underflow({})", i),
        }
    }
}

/// (negative, magnitude)
pub type IntVal = (bool, u128);

pub struct RefIntParse {
    pub complete: Result<IntVal, IntErr>,
    pub partial: Result<(IntVal, usize), IntErr>,
    /// no digit follows the optional sign; `start` is the index after the sign.  The property text
    /// is ambiguous about Empty vs InvalidDigit when other bytes follow, so callers accept either.
    pub zero_digits: bool,
    pub start: usize,
}

/// Left-to-right reference scan, as the property states it.
pub fn ref_parse_int(ty: IntTy, radix: u32, text: &[u8]) -> RefIntParse {
    let mut i = 0;
    let mut neg = false;
    if let Some(&c) = text.first() {
        if c == b'+' {
            i = 1;
        } else if c == b'-' && ty.signed() {
            neg = true;
            i = 1;
        }
    }
    let start = i;
    let limit = if neg {
        ty.min_mag()
    } else {
        ty.max_mag()
    };
    let mut mag: u128 = 0;
    let mut out_of_range: Option<usize> = None;
    while i < text.len() {
        let d = match digit_val(text[i], radix) {
            Some(d) => d,
            None => break,
        };
        if out_of_range.is_none() {
            match mag.checked_mul(radix as u128).and_then(|m| m.checked_add(d as u128)) {
                Some(m) if m <= limit => mag = m,
                _ => out_of_range = Some(i),
            }
        }
        i += 1;
    }
    let digits_end = i;
    let range_err = |idx: usize| {
        if neg {
            IntErr::Underflow(idx)
        } else {
            IntErr::Overflow(idx)
        }
    };
    let val: IntVal = (neg && mag != 0, mag);
    if digits_end == start {
        // no digit after the optional sign
        let e = IntErr::Empty(start);
        return RefIntParse {
            complete: Err(e.clone()),
            partial: Err(e),
            zero_digits: true,
            start,
        };
    }
    let complete = match (out_of_range, digits_end < text.len()) {
        (Some(o), _) => Err(range_err(o)),
        (None, true) => Err(IntErr::InvalidDigit(digits_end)),
        (None, false) => Ok(val),
    };
    let partial = match out_of_range {
        Some(o) => Err(range_err(o)),
        None => Ok((val, digits_end)),
    };
    RefIntParse {
        complete,
        partial,
        zero_digits: false,
        start,
    }
}

/// Minimal big natural number (base 1e9 limbs, little endian) — enough to print exact dyadic
/// rationals in decimal.
#[derive(Clone)]
pub struct BigNat {
    limbs: Vec<u32>,
}

impl BigNat {
    pub fn from_u128(mut v: u128) -> BigNat {
        let mut limbs = Vec::new();
        while v != 0 {
            limbs.push((v % 1_000_000_000) as u32);
            v /= 1_000_000_000;
        }
        BigNat {
            limbs,
        }
    }
    pub fn mul_small(&mut self, k: u32) {
        let mut carry: u64 = 0;
        for l in self.limbs.iter_mut() {
            let t = *l as u64 * k as u64 + carry;
            *l = (t % 1_000_000_000) as u32;
            carry = t / 1_000_000_000;
        }
        while carry != 0 {
            self.limbs.push((carry % 1_000_000_000) as u32);
            carry /= 1_000_000_000;
        }
    }
    pub fn mul_pow(&mut self, base: u32, mut exp: u32) {
        // largest power of base below 2^32 per step
        let mut chunk = base;
        let mut chunk_e = 1;
        while (chunk as u64) * (base as u64) < (1u64 << 32) {
            chunk *= base;
            chunk_e += 1;
        }
        while exp >= chunk_e {
            self.mul_small(chunk);
            exp -= chunk_e;
        }
        for _ in 0..exp {
            self.mul_small(base);
        }
    }
    /// Divide in place by a small number, returning the remainder.
    pub fn divmod_small(&mut self, k: u32) -> u32 {
        let mut rem: u64 = 0;
        for l in self.limbs.iter_mut().rev() {
            let cur = rem * 1_000_000_000 + *l as u64;
            *l = (cur / k as u64) as u32;
            rem = cur % k as u64;
        }
        while self.limbs.last() == Some(&0) {
            self.limbs.pop();
        }
        rem as u32
    }
    pub fn is_zero(&self) -> bool {
        self.limbs.is_empty()
    }
    pub fn add_small(&mut self, k: u32) {
        let mut carry = k as u64;
        for l in self.limbs.iter_mut() {
            let t = *l as u64 + carry;
            *l = (t % 1_000_000_000) as u32;
            carry = t / 1_000_000_000;
            if carry == 0 {
                break;
            }
        }
        if carry != 0 {
            self.limbs.push(carry as u32);
        }
    }
    /// Subtract 1 (the number must be positive).
    pub fn sub_one(&mut self) {
        for l in self.limbs.iter_mut() {
            if *l == 0 {
                *l = 999_999_999;
            } else {
                *l -= 1;
                break;
            }
        }
        while self.limbs.last() == Some(&0) {
            self.limbs.pop();
        }
    }
    /// Positional numeral in any radix 2..=36 (upper-case digits).
    pub fn to_radix(&self, radix: u32) -> Vec<u8> {
        let mut n = self.clone();
        if n.is_zero() {
            return vec![b'0'];
        }
        let mut out = Vec::new();
        while !n.is_zero() {
            out.push(digit_char(n.divmod_small(radix)));
        }
        out.reverse();
        out
    }
    pub fn to_decimal(&self) -> String {
        if self.limbs.is_empty() {
            return "0".to_string();
        }
        let mut s = String::new();
        let mut it = self.limbs.iter().rev();
        write!(s, "{}", it.next().unwrap()).unwrap();
        for l in it {
            write!(s, "{:09}", l).unwrap();
        }
        s
    }
}

/// Exact decimal form of m * 2^e2 as (integer digit string D, decimal exponent k): value = D * 10^k.
pub fn dyadic_to_decimal(m: u128, e2: i32) -> (String, i32) {
    let mut n = BigNat::from_u128(m);
    if e2 >= 0 {
        n.mul_pow(2, e2 as u32);
        (n.to_decimal(), 0)
    } else {
        n.mul_pow(5, (-e2) as u32);
        (n.to_decimal(), e2)
    }
}

/// Count significant digits (excluding leading and trailing zeros) in a written decimal/radix
/// float, given its digit predicate; stops at the exponent character.
pub fn significant_digits(text: &[u8], radix: u32, exp_char: u8) -> usize {
    let mut digs: Vec<u8> = Vec::new();
    for &c in text {
        if c == exp_char || (exp_char == b'e' && c == b'E') {
            break;
        }
        if digit_val(c, radix).is_some() {
            digs.push(c);
        }
    }
    while digs.first() == Some(&b'0') {
        digs.remove(0);
    }
    while digs.last() == Some(&b'0') {
        digs.pop();
    }
    digs.len()
}

/// Is `text` in the plain decimal float grammar both Rust and lexical's STANDARD format accept
/// with the same meaning: [+-] digits [. digits] [(e|E) [+-] digits], with at least one digit in
/// the mantissa and at least one in the exponent if present?
pub fn is_plain_decimal_float(text: &[u8]) -> bool {
    let mut i = 0;
    let n = text.len();
    if i < n && (text[i] == b'+' || text[i] == b'-') {
        i += 1;
    }
    let mut mant = 0;
    while i < n && text[i].is_ascii_digit() {
        i += 1;
        mant += 1;
    }
    if i < n && text[i] == b'.' {
        i += 1;
        while i < n && text[i].is_ascii_digit() {
            i += 1;
            mant += 1;
        }
    }
    if mant == 0 {
        return false;
    }
    if i < n && (text[i] == b'e' || text[i] == b'E') {
        i += 1;
        if i < n && (text[i] == b'+' || text[i] == b'-') {
            i += 1;
        }
        let mut ed = 0;
        while i < n && text[i].is_ascii_digit() {
            i += 1;
            ed += 1;
        }
        if ed == 0 {
            return false;
        }
    }
    i == n
}
