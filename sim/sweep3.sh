#!/bin/bash
# development aid (third session): the extended workload on the unchanged tree, fresh seeds, every variant;
# prints only classes that are not known findings
cd /verif/sim
KNOWN="int-sign-then-nondigit|compact-long-near-halfway|compact-digit-limit|radix-long-near-halfway|radix-writer-digit-equals|shorter-decimal-on-interval-endpoint"
run() { v=$1; f=$2; lo=$3; hi=$4; shift 4; echo "== $v $f $lo..$hi $*"; python3 sweep.py $v $f $lo $hi "$@" 2>&1 | grep -Ev "$KNOWN" | grep -v '^     e.g.' | cut -c1-400 | head -8; }
B=${1:-12000000}
run radix all $B $((B+300000))
run std C02 $B $((B+150000))
run std all $B $((B+100000))
run std C10 $B $((B+80000))
run std C15 $B $((B+50000))
run radix C11 $B $((B+50000))
run compact all $B $((B+50000))
run pow2 all $B $((B+50000))
run radix_rel all $B $((B+40000))
run nostd all $B $((B+30000))
run std_rel C02 $B $((B+30000))
echo DONE
