#!/usr/bin/env python3
"""Determinism proof for engine G: run every (variant, focus, seed) twice in separate processes, at two
different levels of parallelism, and require byte-identical result lines (which include the schedule
hash, both transcript hashes, all counters and all violations)."""
import subprocess, sys, os
from concurrent.futures import ThreadPoolExecutor
here = os.path.dirname(os.path.abspath(__file__))
def out(variant, focus, seed):
    b = os.path.join(here, "target/repo/%s/release/lexsim-%s" % (variant, variant.replace("_", "-")))
    return subprocess.run([b, "gated", "--seed", str(seed), "--focus", focus], capture_output=True, text=True).stdout
def main():
    n = int(sys.argv[1]) if len(sys.argv) > 1 else 2000
    jobs = [(v, f, s) for v in ("std", "radix", "compact") for f in ("all", "C01", "C03", "C09", "C17") for s in range(n)]
    with ThreadPoolExecutor(16) as ex: a = list(ex.map(lambda j: out(*j), jobs))
    with ThreadPoolExecutor(5) as ex: b = list(ex.map(lambda j: out(*j), jobs))
    bad = [j for j, x, y in zip(jobs, a, b) if x != y or not x.strip()]
    print("determinism: %d (variant, focus, seed) triples run twice (16 and 5 workers), %d differ" % (len(jobs), len(bad)))
    for j in bad[:5]: print("  DIFFERS", j)
    sys.exit(1 if bad else 0)
main()
