#!/bin/bash
# development aid: very many seeds of the all-kinds workload per variant on the unchanged tree, to bound the rate of
# rare input-level defects that would make a check alarm on some seeds.  Prints only classes that are not known findings.
cd /verif/sim
KNOWN="int-sign-then-nondigit|compact-long-near-halfway|compact-digit-limit|radix-long-near-halfway|radix-writer-digit-equals"
run() { v=$1; f=$2; lo=$3; hi=$4; shift 4; echo "== $v $f $lo..$hi $*"; python3 sweep.py $v $f $lo $hi "$@" 2>&1 | grep -Ev "$KNOWN" | grep -v '^     e.g.' | cut -c1-400 | head -8; }
run radix all 5000000 6200000
run std all 5000000 5400000
run compact all 5000000 5300000
run pow2 all 5000000 5300000
run radix_rel all 5000000 5300000
run nostd all 5000000 5200000
run std_rel all 5000000 5200000
run radix C05 5000000 5300000
run radix C07 5000000 5300000
run std C01 5000000 5300000
echo DONE
