#!/bin/bash
# development aid: many seeds x every focus x every quick variant on the unchanged tree; prints only classes
# that are not the C11 known finding / the compact known finding
cd /verif/sim
for v in std radix pow2 nostd compact; do
  for f in all C01 C02 C03 C04 C05 C06 C07 C08 C09 C10 C11 C15 C16 C17 C19; do
    echo "== $v $f"
    python3 sweep.py $v $f ${1:-100000} ${2:-112000} 2>&1 | grep -v "int-sign-then-nondigit\|compact-long-near-halfway\|e.g.\| runs " | head -5
  done
done
echo "== decimal-only"
for v in std radix pow2 nostd compact; do python3 sweep.py $v C16 100000 112000 --decimal-only 2>&1 | grep -v "int-sign-then-nondigit\|compact-long-near-halfway\|e.g.\| runs " | head -5; done
echo DONE
