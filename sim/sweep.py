#!/usr/bin/env python3
"""Development helper: run many gated seeds of one variant/focus in parallel and summarise the
violation classes.  Not a registered check."""
import json, subprocess, sys, collections, os
from concurrent.futures import ThreadPoolExecutor

def run(binary, seed, focus, extra):
    p = subprocess.run([binary, "gated", "--seed", str(seed), "--focus", focus] + extra,
                       capture_output=True, text=True)
    lines = p.stdout.strip().splitlines()
    try:
        return p.returncode, json.loads(lines[-1])
    except Exception:
        return p.returncode, {"seed": seed, "violations": [{"prop": "HARNESS", "tag": "", "op": "", "msg": "no json: rc=%d %s %s" % (p.returncode, p.stdout[-300:], p.stderr[-300:])}]}

def main():
    variant, focus, lo, hi = sys.argv[1], sys.argv[2], int(sys.argv[3]), int(sys.argv[4])
    extra = sys.argv[5:]
    binary = os.environ.get("LEXSIM_BIN") or os.path.join(os.path.dirname(os.path.abspath(__file__)), "target/repo/%s/release/lexsim-%s" % (variant, variant.replace("_", "-")))
    c = collections.Counter(); ex = {}
    n = 0; ops = collections.Counter(); faults = collections.Counter()
    with ThreadPoolExecutor(16) as ex_:
        for rc, j in ex_.map(lambda s: run(binary, s, focus, extra), range(lo, hi)):
            n += 1
            for k, v in j.get("ops", {}).items(): ops[k] += v
            for k, v in j.get("faults", {}).items(): faults[k] += v
            for v in j["violations"]:
                k = (v["prop"], v.get("tag", ""), v["msg"][:70])
                c[k] += 1
                ex.setdefault(k, (j["seed"], v["op"], v["msg"][:300]))
    print(n, "runs", dict(ops), dict(faults))
    for k, v in c.most_common(40):
        print(v, k, "\n     e.g.", ex[k])

main()
