#!/bin/sh
# Premise audit for the not-applicable verdict; see na_premises.py and DESIGN.md §1.3/§5/§6.
# Not a property check: exit 0 = premises hold, exit 2 = NA-PREMISE-BROKEN / AUDIT-ERROR. Never prints VIOLATION.
# usage: audit/na_premises.sh [--miri] [--seeds=N] [--json]      (VERIF_REPO overrides /repo)
export CARGO_NET_OFFLINE=true
exec python3 "$(dirname "$0")/na_premises.py" "$@"
