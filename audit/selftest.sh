#!/bin/bash
# Self-test of audit/na_premises.sh: in a scratch worktree of /repo (removed afterwards) apply, one at a time,
#   - benign edits that introduce no seam            -> the audit must stay at exit 0 (no false alarm)
#   - edits that introduce something a simulator could own (DESIGN.md §5) -> the audit must exit 2
# Prints one line per case and exits 0 iff every case behaved as expected. Not a property check.
set -u
AUD="$(cd "$(dirname "$0")" && pwd)/na_premises.sh"
W=$(mktemp -d /tmp/na_selftest.XXXXXX); rmdir "$W"
git -C /repo worktree add -q --detach "$W" HEAD || { echo "AUDIT-ERROR cannot create worktree"; exit 2; }
trap 'git -C /repo worktree remove --force "$W" >/dev/null 2>&1; git -C /repo worktree prune' EXIT
bad=0
case_() { # name expected_exit
  VERIF_REPO="$W" "$AUD" > "$W.log" 2>&1; rc=$?
  first=$(grep -m1 -o 'NA-PREMISE-BROKEN [A-Za-z.-]*' "$W.log" || true)
  if [ "$rc" = "$2" ]; then echo "ok    $1: exit $rc $first"; else echo "WRONG $1: exit $rc, expected $2"; grep -m5 'NA-PREMISE\|AUDIT-ERROR\|^error' "$W.log"; bad=1; fi
  git -C "$W" checkout -q -- . ; git -C "$W" clean -fdq -e target; rm -f "$W.log"
}

# ---- benign: must stay quiet
case_ "unchanged tree" 0
cat >> "$W/lexical-util/src/digit.rs" <<'EOF'

// A thread-safe note: no Mutex, no std::io::Write, no static mut here; just a comment about async HashMap rand.
/// Doc comment mentioning `std::thread::spawn` and `Instant::now()`.
pub const EXTRA_TABLE: [u8; 4] = [1, 2, 3, 4];
pub const EXTRA_MSG: &str = "Mutex thread static mut AtomicBool std::io::Write";
pub const EXTRA_CHAR: u8 = b'"';
pub fn extra_lifetime<'static_like>(x: &'static_like [u8]) -> &'static_like [u8] { x }
EOF
case_ "benign: const table, seam words only in comments/strings/lifetimes" 0
cat >> "$W/lexical-parse-float/src/limits.rs" <<'EOF'

pub static EXTRA_IMMUTABLE: [u64; 3] = [1, 10, 100];
#[inline(never)]
pub fn extra_lookup(i: usize) -> u64 { EXTRA_IMMUTABLE[i % 3] }
EOF
case_ "benign: new immutable static table (lands in .rodata)" 0

# ---- seams: must be reported
cat >> "$W/lexical-parse-float/src/limits.rs" <<'EOF'

static CACHE_READY: core::sync::atomic::AtomicBool = core::sync::atomic::AtomicBool::new(false);
static mut CACHE: [u64; 4] = [0; 4];
EOF
case_ "seam: lazily initialised static mut behind an atomic" 2
cat >> "$W/lexical-write-float/src/shared.rs" <<'EOF'

pub struct Memo(core::cell::Cell<u64>);
unsafe impl Sync for Memo {}
pub static LAST_EXP: Memo = Memo(core::cell::Cell::new(0));
#[inline(never)]
pub fn remember(e: u64) -> u64 { let o = LAST_EXP.0.get(); LAST_EXP.0.set(e); o }
EOF
case_ "seam: interior-mutable static (Cell + unsafe Sync)" 2
cat >> "$W/lexical-core/src/lib.rs" <<'EOF'

#[cfg(feature = "std")]
pub fn write_to<N: ToLexical, W: std::io::Write>(n: N, mut w: W) -> std::io::Result<()> {
    let mut b = [0u8; BUFFER_SIZE];
    w.write_all(write(n, &mut b))
}
EOF
case_ "seam: streaming io::Write sink in the public API" 2
cat >> "$W/lexical-core/src/lib.rs" <<'EOF'

pub fn parse_iter<N: FromLexical, I: Iterator<Item = u8>>(it: I) -> Result<N> {
    let mut b = [0u8; 64]; let mut n = 0;
    for c in it { if n < 64 { b[n] = c; n += 1; } }
    parse(&b[..n])
}
EOF
case_ "seam: caller-supplied iterator source in the public API" 2
cat >> "$W/lexical/src/lib.rs" <<'EOF'

std::thread_local! { static SCRATCH: core::cell::RefCell<Vec<u8>> = core::cell::RefCell::new(Vec::new()); }
EOF
case_ "seam: thread_local scratch buffer in the facade" 2
cat >> "$W/lexical-write-integer/src/api.rs" <<'EOF'

pub fn write_cb<F: FnMut(&[u8])>(v: u64, mut f: F) { let mut b = [0u8; 32]; f(crate::ToLexical::to_lexical(v, &mut b)); }
EOF
case_ "seam: callback into caller code" 2
cat >> "$W/lexical-util/src/error.rs" <<'EOF'

#[cfg(feature = "std")]
pub fn stamp() -> u128 { std::time::SystemTime::now().duration_since(std::time::UNIX_EPOCH).map(|d| d.as_nanos()).unwrap_or(0) }
EOF
case_ "seam: wall clock read" 2
cat >> "$W/lexical-parse-float/src/bigint.rs" <<'EOF'

extern crate alloc;
pub fn heap_limbs(n: usize) -> alloc::vec::Vec<u64> { alloc::vec![0u64; n] }
EOF
case_ "seam: heap allocation below the facade (fallible-allocator fault site)" 2

[ $bad = 0 ] && echo "SELFTEST: audit behaved as expected on every case" || echo "SELFTEST: audit misbehaved"
exit $bad
