#!/usr/bin/env python3
"""Premise audit for the not-applicable verdict (DESIGN.md §1.3, §5, §6).

This is NOT a property check and is not registered under MANIFEST.checks.  It never prints a
VIOLATION line.  It rebuilds from /repo's current working tree, offline, and re-establishes the
facts that make deterministic simulation with fault injection inapplicable to rust-lexical:

  A  source scan      no threads / sync / atomics / interior mutability / clocks / randomness /
                      I/O / FFI / async / unwinding-catch in any crate's src; allocation only in
                      the `lexical` facade; the only Drop/asm is the x86-without-SSE2 FPU guard
  B  link imports     a no_std, panic=abort staticlib instantiating every public entry point for
                      ints and floats (features radix+format, then +compact) has undefined
                      symbols only from an allow-list (mem*, fmod*, core::panicking/fmt/slice)
  C  writable data    no lexical object has a non-empty .data/.bss/.tdata/.tbss section
  D  API shape        public entry points take and return slices / values / &Options only:
                      no reader, writer, iterator, closure, trait object or future from the caller
  E  (optional, --miri) 4 caller threads under miri's pre-empting scheduler and race detector:
                      race-free and transcript-identical to a single-threaded run for every seed

Exit 0: all premises hold, the N/A verdict is still grounded.
Exit 2: `NA-PREMISE-BROKEN <which> <detail>` — a seam has appeared; DESIGN.md §5 applies and the
        design must be revisited.  (Also exit 2, with `AUDIT-ERROR`, if the audit itself cannot run.)
"""
import os, re, shutil, subprocess, sys, tempfile, json, time, glob

REPO = os.environ.get("VERIF_REPO", "/repo")
CRATES = ["lexical", "lexical-core", "lexical-util", "lexical-parse-integer",
          "lexical-parse-float", "lexical-write-integer", "lexical-write-float"]
broken = []      # (premise, detail)
info = []


def fail(premise, detail):
    if (premise, detail) in broken:
        return
    broken.append((premise, detail))
    print(f"NA-PREMISE-BROKEN {premise} {detail}", flush=True)


# --------------------------------------------------------------------------- A: source scan
def blank_comments_and_strings(src):
    """Return src with comments, string and char literals replaced by spaces (newlines kept)."""
    out = []
    i, n = 0, len(src)
    def blank(s):
        return re.sub(r"[^\n]", " ", s)
    while i < n:
        c = src[i]
        two = src[i:i + 2]
        if two == "//":
            j = src.find("\n", i)
            j = n if j < 0 else j
            out.append(blank(src[i:j])); i = j
        elif two == "/*":
            depth, j = 1, i + 2
            while j < n and depth:
                if src[j:j + 2] == "/*": depth += 1; j += 2
                elif src[j:j + 2] == "*/": depth -= 1; j += 2
                else: j += 1
            out.append(blank(src[i:j])); i = j
        elif c == '"' or (c in "br" and re.match(r'b?r?#*"', src[i:i + 8]) and (i == 0 or not (src[i - 1].isalnum() or src[i - 1] == "_"))):
            m = re.match(r'(b?)(r?)(#*)"', src[i:])
            raw, hashes = m.group(2) == "r", m.group(3)
            j = i + m.end()
            if raw:
                end = src.find('"' + hashes, j)
                end = n if end < 0 else end + 1 + len(hashes)
            else:
                while j < n and src[j] != '"':
                    j += 2 if src[j] == "\\" else 1
                end = min(n, j + 1)
            out.append('"' + blank(src[i + 1:end - 1]) + '"' if end - i >= 2 else blank(src[i:end])); i = end
        elif c == "'":
            m = re.match(r"'(\\.[^']*|[^\\'])'", src[i:])
            if m:
                out.append(blank(m.group(0))); i += m.end()
            else:
                out.append(c); i += 1          # lifetime
        else:
            out.append(c); i += 1
    return "".join(out)


FORBIDDEN = [
    ("static-mut",        r"\bstatic\s+mut\b"),
    ("atomics",           r"\bAtomic[A-Z]\w*\b|\batomic\b|\bfence\b"),
    ("interior-mut",      r"\b(UnsafeCell|RefCell|Cell|OnceCell|LazyCell|SyncUnsafeCell)\b"),
    ("threads",           r"\bthread\b|\bthread_local\b|\bspawn\b|\bJoinHandle\b"),
    ("sync-primitives",   r"\b(Mutex|RwLock|Condvar|Once|OnceLock|LazyLock|Barrier|mpsc|lazy_static|once_cell|Semaphore|Arc|Rc)\b"),
    ("io",                r"\b(std|core)::io\b|\bio::\w+|\bfmt::Write\b|\b(BufRead|BufReader|BufWriter|Read|Seek)\b|\bimpl\s+Write\b|\bdyn\s+Write\b|:\s*Write\b"),
    ("time",              r"\b(std|core)::time\b|\b(Instant|SystemTime|Duration)\b|\bsleep\b"),
    ("randomness",        r"\b(rand|random|getrandom|RandomState|thread_rng)\b"),
    ("hash-iteration",    r"\b(HashMap|HashSet)\b"),
    ("os-env",            r"\bstd::(fs|net|env|process|os|sync|thread)\b"),
    ("async",             r"\basync\b|\bawait\b|\b(Future|Poll|Waker|Pin)\b"),
    ("ffi",               r"\bextern\s*\"|\blibc\b|#\s*\[\s*no_mangle|#\s*\[\s*link\b"),
    ("unwind-catch",      r"\b(catch_unwind|resume_unwind|panicking)\b"),
    ("caller-callbacks",  r"\bdyn\s+Fn|\bBox\s*<\s*dyn\b"),
    ("global-alloc",      r"\bGlobalAlloc\b|#\s*\[\s*global_allocator"),
]
# patterns with a (file-suffix) allow-list: the only places they may occur
RESTRICTED = [
    ("drop-impl",   r"\bimpl\b[^{;]*\bDrop\b\s+for\b", ["lexical-parse-float/src/fpu.rs"]),
    ("inline-asm",  r"\b(asm|global_asm)\s*!",          ["lexical-parse-float/src/fpu.rs"]),
    ("allocation",  r"\balloc\s*::|\bvec\s*!|\b(Vec|Box|String|VecDeque|BTreeMap|Cow)\b", ["lexical/src/lib.rs"]),
    ("maybe-uninit", r"\bMaybeUninit\b|\bassume_init\b|\bset_len\b|\bmem::uninitialized\b",
     ["lexical-parse-float/src/bigint.rs", "lexical/src/lib.rs"]),
]


def premise_a():
    files = []
    for c in CRATES:
        files += sorted(glob.glob(os.path.join(REPO, c, "src", "**", "*.rs"), recursive=True))
    if len(files) < 50:
        fail("A.scan", f"only {len(files)} source files found under {REPO} - layout changed")
    nlines = 0
    statics = []
    for f in files:
        rel = os.path.relpath(f, REPO)
        code = blank_comments_and_strings(open(f, encoding="utf-8").read())
        lines = code.split("\n")
        nlines += len(lines)
        for name, pat in FORBIDDEN:
            for m in re.finditer(pat, code):
                ln = code.count("\n", 0, m.start()) + 1
                fail("A." + name, f"{rel}:{ln}: `{lines[ln-1].strip()[:100]}`")
        for name, pat, allowed in RESTRICTED:
            if any(rel.endswith(a) for a in allowed):
                continue
            for m in re.finditer(pat, code):
                ln = code.count("\n", 0, m.start()) + 1
                fail("A." + name, f"{rel}:{ln}: `{lines[ln-1].strip()[:100]}`")
        for m in re.finditer(r"(?<!')\bstatic\s+(\w+)\s*:", code):
            statics.append(f"{rel}:{m.group(1)}")
    # the FPU guard must stay confined to x86-without-sse2
    fpu = open(os.path.join(REPO, "lexical-parse-float/src/fpu.rs"), encoding="utf-8").read()
    mods = re.findall(r"#\[cfg\(([^\n]*)\)\]\s*\nmod fpu_precision", fpu)
    want = ['all(target_arch = "x86", not(target_feature = "sse2"))',
            'any(not(target_arch = "x86"), target_feature = "sse2")']
    if mods != want:
        fail("A.fpu-guard-cfg", f"fpu.rs module gating changed: {mods}")
    info.append(f"A: scanned {len(files)} files / {nlines} lines; statics (immutability is settled by premise C): {statics}")
    return {"files": len(files), "lines": nlines, "statics": statics}


# --------------------------------------------------------------------------- D: API shape
ENTRY_FILES = ["lexical-core/src/lib.rs", "lexical/src/lib.rs",
               "lexical-parse-integer/src/api.rs", "lexical-parse-float/src/api.rs",
               "lexical-write-integer/src/api.rs", "lexical-write-float/src/api.rs",
               "lexical-util/src/api.rs"]
EXPECTED_CORE = {"write", "write_with_options", "parse", "parse_partial", "parse_with_options",
                 "parse_partial_with_options"}
EXPECTED_FACADE = {"to_string", "to_string_with_options", "parse", "parse_partial",
                   "parse_with_options", "parse_partial_with_options"}
BAD_SIG = r"\b(Read|BufRead|Write|Iterator|IntoIterator|FnMut|FnOnce|Fn|Future|Stream|Sink)\b|\bdyn\b|\bimpl\s+[A-Z]|&\s*mut\s+(?!\[u8\]|'\w+\s+\[u8\])"


def premise_d():
    sigs = 0
    for rel in ENTRY_FILES:
        p = os.path.join(REPO, rel)
        if not os.path.exists(p):
            fail("D.layout", f"{rel} missing"); continue
        code = blank_comments_and_strings(open(p, encoding="utf-8").read())
        names = set()
        for m in re.finditer(r"\bfn\s+(\w+)\s*(<[^({]*)?\(([^{;]*?)\)\s*(->\s*[^{;]+?)?\s*(where[^{;]*)?[{;]", code, re.S):
            name, generics, params, ret = m.group(1), m.group(2) or "", m.group(3), m.group(4) or ""
            sigs += 1
            # only the externally visible conversion surface matters
            pre = code[max(0, m.start() - 40):m.start()]
            is_pub = re.search(r"\bpub\s+(const\s+)?(unsafe\s+)?$", pre) is not None
            in_trait_or_macro = rel.endswith("api.rs") or rel.endswith("lexical-util/src/api.rs")
            if not (is_pub or in_trait_or_macro):
                continue
            if is_pub and "lib.rs" in rel:
                names.add(name)
            sig = " ".join((generics + " " + params + " " + ret + " " + (m.group(5) or "")).split())
            b = re.search(BAD_SIG, sig)
            if b:
                ln = code.count("\n", 0, m.start()) + 1
                fail("D.signature", f"{rel}:{ln}: fn {name}: `{sig[:140]}` mentions `{b.group(0).strip()}`")
        if rel == "lexical-core/src/lib.rs" and names != EXPECTED_CORE:
            fail("D.surface", f"lexical-core public fns changed: {sorted(names ^ EXPECTED_CORE)}")
        if rel == "lexical/src/lib.rs" and names != EXPECTED_FACADE:
            fail("D.surface", f"lexical public fns changed: {sorted(names ^ EXPECTED_FACADE)}")
    info.append(f"D: inspected {sigs} fn signatures in {len(ENTRY_FILES)} entry files")
    return {"signatures": sigs}


# --------------------------------------------------------------------------- B, C: link-level
PROBE_LIB = r'''
#![cfg_attr(not(feature = "std"), no_std)]
#![allow(clippy::all)]
use core::num::NonZeroU8;
use lexical_core as lc;
use lc::{format::NumberFormatBuilder, ParseFloatOptions, ParseIntegerOptions, WriteFloatOptions, WriteIntegerOptions};

#[cfg(not(feature = "std"))]
#[panic_handler]
fn ph(_: &core::panic::PanicInfo) -> ! { loop {} }

const R3: u128 = NumberFormatBuilder::from_radix(3);
const R16: u128 = NumberFormatBuilder::from_radix(16);
const R36: u128 = NumberFormatBuilder::from_radix(36);
const SEP: u128 = NumberFormatBuilder::new()
    .digit_separator(NonZeroU8::new(b'_'))
    .integer_internal_digit_separator(true)
    .fraction_internal_digit_separator(true)
    .exponent_internal_digit_separator(true)
    .build_strict();
const STD: u128 = lc::format::STANDARD;

static PFO: ParseFloatOptions = ParseFloatOptions::new();
static PIO: ParseIntegerOptions = ParseIntegerOptions::new();
static WFO: WriteFloatOptions = WriteFloatOptions::new();
static WIO: WriteIntegerOptions = WriteIntegerOptions::new();
static WFO_HEX: WriteFloatOptions = WriteFloatOptions::builder().exponent(b'^').build_strict();
static PFO_HEX: ParseFloatOptions = ParseFloatOptions::builder().exponent(b'^').build_strict();

macro_rules! ints { ($acc:ident, $inp:ident, $out:ident, $($t:ty)*) => {$(
    if let Ok(v) = lc::parse::<$t>($inp) { $acc ^= lc::write(v, $out).len(); }
    if let Ok((v, n)) = lc::parse_partial::<$t>($inp) { $acc ^= n ^ lc::write_with_options::<$t, STD>(v, $out, &WIO).len(); }
    if let Ok(v) = lc::parse_with_options::<$t, R3>($inp, &PIO) { $acc ^= lc::write_with_options::<$t, R3>(v, $out, &WIO).len(); }
    if let Ok(v) = lc::parse_with_options::<$t, R16>($inp, &PIO) { $acc ^= lc::write_with_options::<$t, R16>(v, $out, &WIO).len(); }
    if let Ok((v, n)) = lc::parse_partial_with_options::<$t, R36>($inp, &PIO) { $acc ^= n ^ lc::write_with_options::<$t, R36>(v, $out, &WIO).len(); }
    if let Ok((v, n)) = lc::parse_partial_with_options::<$t, SEP>($inp, &PIO) { $acc ^= n ^ (v as usize); }
)*}}
macro_rules! floats { ($acc:ident, $inp:ident, $out:ident, $($t:ty)*) => {$(
    if let Ok(v) = lc::parse::<$t>($inp) { $acc ^= lc::write(v, $out).len(); }
    if let Ok((v, n)) = lc::parse_partial::<$t>($inp) { $acc ^= n ^ lc::write_with_options::<$t, STD>(v, $out, &WFO).len(); }
    if let Ok(v) = lc::parse_with_options::<$t, R3>($inp, &PFO_HEX) { $acc ^= lc::write_with_options::<$t, R3>(v, $out, &WFO_HEX).len(); }
    if let Ok(v) = lc::parse_with_options::<$t, R16>($inp, &PFO_HEX) { $acc ^= lc::write_with_options::<$t, R16>(v, $out, &WFO_HEX).len(); }
    if let Ok((v, n)) = lc::parse_partial_with_options::<$t, R36>($inp, &PFO_HEX) { $acc ^= n ^ lc::write_with_options::<$t, R36>(v, $out, &WFO_HEX).len(); }
    if let Ok((v, n)) = lc::parse_partial_with_options::<$t, SEP>($inp, &PFO) { $acc ^= n ^ (v as usize); }
)*}}

#[no_mangle]
pub extern "C" fn naprobe_entry(inp: *const u8, len: usize, out: *mut u8, cap: usize) -> usize {
    let inp = unsafe { core::slice::from_raw_parts(inp, len) };
    let out = unsafe { core::slice::from_raw_parts_mut(out, cap) };
    let mut acc = 0usize;
    ints!(acc, inp, out, u8 u16 u32 u64 u128 usize i8 i16 i32 i64 i128 isize);
    floats!(acc, inp, out, f32 f64);
    acc
}
'''

PROBE_TOML = '''
[package]
name = "naprobe"
version = "0.0.0"
edition = "2021"

[workspace]

[lib]
crate-type = ["staticlib"]

[dependencies.lexical-core]
path = "{repo}/lexical-core"
default-features = false
features = ["write-integers", "write-floats", "parse-integers", "parse-floats", "radix", "format"{extra}]

[features]
std = ["lexical-core/std"]

[profile.release]
opt-level = 2
panic = "abort"
lto = false
codegen-units = 4
debug = false
'''

ALLOWED_UNDEF = re.compile(
    r"^(memcpy|memset|memmove|memcmp|bcmp|fmod|fmodf|floor|floorf|log|logf|pow|powf|exp2|exp2f|"
    r"_?_?rust_(begin_unwind|eh_personality)|rust_begin_unwind|"
    r"_GLOBAL_OFFSET_TABLE_|__stack_chk_fail|__(u?div|u?mod|mul)ti\d|__floatunti[sd]f|__floatti[sd]f|__fixuns[sd]fti|__fix[sd]fti|"
    r"_ZN4core9panicking\w+|_ZN4core5slice5index\w+|_ZN4core6option13unwrap_failed\w+|_ZN4core6option13expect_failed\w+|"
    r"_ZN4core6result13unwrap_failed\w+|_ZN4core3fmt\w+|_ZN\d+_?\$LT\$\w+\$u20\$as\$u20\$core\.\.fmt\w+|"
    r"_ZN4core3str\w+|_ZN4core4cell\w+panic\w+|_ZN4core3num\w*|_RN?vCs?\w*4core\w*|_R\w*4core\w*(panicking|fmt|slice|option|result)\w*)$")
FORBIDDEN_UNDEF = re.compile(
    r"pthread|clock_|nanosleep|gettimeofday|\bread\b|\bwrite\b|open|socket|getrandom|__tls_get_addr|__rust_alloc|__rdl_|__rg_|malloc|free|atomic|futex|getenv|signal")


def run(cmd, **kw):
    return subprocess.run(cmd, text=True, stdout=subprocess.PIPE, stderr=subprocess.STDOUT, **kw)


def premise_bc(tmp, extra_features, tag, std=False):
    d = os.path.join(tmp, "naprobe_" + tag)
    os.makedirs(os.path.join(d, "src"))
    extra = "".join(f', "{f}"' for f in extra_features)
    open(os.path.join(d, "Cargo.toml"), "w").write(PROBE_TOML.format(repo=REPO, extra=extra))
    open(os.path.join(d, "src/lib.rs"), "w").write(PROBE_LIB)
    env = dict(os.environ, CARGO_NET_OFFLINE="true", CARGO_TARGET_DIR=os.path.join(d, "target"))
    env.pop("RUSTFLAGS", None)
    r = run(["cargo", "build", "--release", "--offline", "-q"] + (["--features", "std"] if std else []), cwd=d, env=env)
    if r.returncode != 0:
        print(r.stdout[-4000:])
        print(f"AUDIT-ERROR probe build failed ({tag}); if the public API changed, premise D reports how", flush=True)
        broken.append(("B.build", tag))
        return {}
    lib = os.path.join(d, "target/release/libnaprobe.a")
    members = run(["ar", "t", lib]).stdout.split()
    # rustc adds one allocator-shim object (`<crate>-<hash>.<hash>.rcgu.o`, no `-cgu.N`) to every std staticlib; it
    # forwards __rust_alloc* to __rdl_* and contains no lexical or probe code, so it is not part of the subject
    mine = [m for m in members if re.match(r"(lexical_|naprobe)", m) and "-cgu." in m]
    if len(mine) < 3:
        fail("B.members", f"{tag}: expected lexical_* and naprobe objects in archive, got {mine[:5]}")
    xd = os.path.join(d, "x"); os.makedirs(xd)
    run(["ar", "x", lib] + mine, cwd=xd)
    undefined, defined = set(), set()
    sections = 0
    for m in mine:
        o = os.path.join(xd, m)
        for line in run(["nm", "-g", o]).stdout.splitlines():
            parts = line.split()
            if len(parts) == 2 and parts[0] in "Uw":
                if parts[0] == "U": undefined.add(parts[1])
            elif len(parts) == 3:
                defined.add(parts[2])
        for line in run(["size", "-A", o]).stdout.splitlines():
            parts = line.split()
            if len(parts) >= 2 and parts[0].startswith("."):
                sections += 1
            # .data.rel.ro* is relocated read-only data (panic locations, &'static option structs): not writable at run time
            if len(parts) >= 2 and re.match(r"\.(data|bss|tdata|tbss)(\.|$)", parts[0]) and not parts[0].startswith(".data.rel.ro"):
                if int(parts[1]) > 0:
                    fail("C.writable-section", f"{tag}: {m} {parts[0]} size={parts[1]}")
    ext = sorted(undefined - defined)
    for s in ext:
        if FORBIDDEN_UNDEF.search(s) or not ALLOWED_UNDEF.match(s):
            fail("B.undefined-symbol", f"{tag}: {s}")
    info.append(f"B/C[{tag}]: {len(mine)} objects, {sections} sections sized, {len(defined)} defined, {len(ext)} external undefined symbols: "
                + ", ".join(sorted({re.sub(r'^_ZN4core(\d+)(\w+?)\d.*', r'core::\2*', s) for s in ext})))
    shutil.rmtree(d, ignore_errors=True)
    return {"objects": len(mine), "external_undefined": ext}


# --------------------------------------------------------------------------- E: miri threads
MIRI_MAIN = r'''
use std::thread;
fn transcript() -> Vec<u8> {
    let mut t = Vec::new();
    let mut buf = [0u8; 1200];
    for s in ["0", "-0.0", "1e23", "8.55e21", "2.4703282292062327e-324", "179769313486231580793728971405303415079934132710037826936173778980444968292764750946649017977587207096330286416692887910946555547851940402630657488671505820681908902000708383676273854845817711531764475730270069855571366959622842914819860834936475292719074168444365510704342711559699508093042880177904174497791.9999999999999999999999999999999999999999999999999999999999999999999999",
              "123456789012345678901234567890", "-128", "255", "nan", "inf", "1_000", "ff.8^2", "", "+", "1e", ".5", "9007199254740993"] {
        let b = s.as_bytes();
        t.extend(format!("{:?}|{:?}|", lexical_core::parse::<f64>(b).map(f64::to_bits), lexical_core::parse_partial::<f32>(b).map(|(v,n)|(v.to_bits(),n))).bytes());
        t.extend(format!("{:?}|{:?}|{:?}|", lexical_core::parse::<i8>(b), lexical_core::parse_partial::<u64>(b), lexical_core::parse::<i128>(b)).bytes());
    }
    for v in [0.0f64, -0.0, 1.0, 0.1, 1e23, 5e-324, f64::MAX, f64::MIN_POSITIVE, 123456.789e100, f64::NAN, f64::INFINITY] {
        t.extend_from_slice(lexical_core::write(v, &mut buf)); t.push(b'|');
        t.extend_from_slice(lexical_core::write(v as f32, &mut buf)); t.push(b'|');
        t.extend(lexical::to_string(v).bytes()); t.push(b'|');
    }
    for v in [0i128, -1, i128::MIN, i128::MAX, 1234567890123456789] {
        t.extend_from_slice(lexical_core::write(v, &mut buf)); t.push(b'|');
        t.extend_from_slice(lexical_core::write(v as i64, &mut buf)); t.push(b'|');
        t.extend_from_slice(lexical_core::write(v as u8, &mut buf)); t.push(b'|');
        t.extend(lexical::to_string(v as u32).bytes()); t.push(b'|');
    }
    t
}
fn main() {
    let single = transcript();
    let hs: Vec<_> = (0..4).map(|_| thread::spawn(transcript)).collect();
    for h in hs { assert_eq!(h.join().unwrap(), single, "transcript differs between threads"); }
    println!("MIRI-OK {}", single.len());
}
'''


def premise_e(tmp, seeds):
    d = os.path.join(tmp, "namiri"); os.makedirs(os.path.join(d, "src"))
    open(os.path.join(d, "Cargo.toml"), "w").write(f'''
[package]
name = "namiri"
version = "0.0.0"
edition = "2021"
[workspace]
[dependencies]
lexical-core = {{ path = "{REPO}/lexical-core" }}
lexical = {{ path = "{REPO}/lexical" }}
''')
    open(os.path.join(d, "src/main.rs"), "w").write(MIRI_MAIN)
    env = dict(os.environ, CARGO_NET_OFFLINE="true", CARGO_TARGET_DIR=os.path.join(d, "target"),
               MIRIFLAGS=f"-Zmiri-many-seeds=0..{seeds} -Zmiri-preemption-rate=0.1")
    r = run(["cargo", "+nightly", "miri", "run", "--offline", "-q"], cwd=d, env=env)
    ok = r.stdout.count("MIRI-OK")
    if r.returncode != 0 or "Undefined Behavior" in r.stdout or "data race" in r.stdout.lower():
        print(r.stdout[-3000:])
        fail("E.miri-threads", f"miri reported a problem or a transcript differed (rc={r.returncode}, ok={ok}/{seeds})")
    info.append(f"E: miri 4 threads x {seeds} scheduler seeds: {ok} clean transcript-identical runs")
    shutil.rmtree(d, ignore_errors=True)
    return {"seeds": seeds, "clean": ok}


def main():
    t0 = time.time()
    want_miri = "--miri" in sys.argv
    seeds = 16
    for a in sys.argv[1:]:
        if a.startswith("--seeds="): seeds = int(a.split("=")[1])
    if not os.path.isdir(os.path.join(REPO, "lexical-core", "src")):
        print(f"AUDIT-ERROR {REPO} is not a rust-lexical tree"); return 2
    report = {"repo": REPO}
    report["A"] = premise_a()
    report["D"] = premise_d()
    tmp = tempfile.mkdtemp(prefix="na_premises_")
    try:
        report["BC_radix_format"] = premise_bc(tmp, [], "radix+format")
        report["BC_compact"] = premise_bc(tmp, ["compact"], "radix+format+compact")
        # with `std` the in-tree libm port is replaced by the platform libm (pure math functions, no state)
        report["BC_std_compact"] = premise_bc(tmp, ["compact"], "std+radix+format+compact", std=True)
        if want_miri:
            report["E"] = premise_e(tmp, seeds)
    finally:
        shutil.rmtree(tmp, ignore_errors=True)
    for l in info: print(l)
    report["wall_s"] = round(time.time() - t0, 1)
    report["broken"] = [list(b) for b in broken]
    if "--json" in sys.argv:
        print(json.dumps(report, indent=1))
    if broken:
        print(f"NA-PREMISES: {len(broken)} broken - a seam has appeared; revisit DESIGN.md §5 ({report['wall_s']}s)")
        return 2
    print(f"NA-PREMISES: all hold (A source scan, B link imports, C writable data, D API shape"
          + (", E miri threads" if want_miri else "") + f") in {report['wall_s']}s")
    return 0


if __name__ == "__main__":
    sys.exit(main())
