#!/usr/bin/env python3
"""simctl — driver for the lexsim deterministic simulator (see DESIGN.md).

  simctl.py check <PROP> [--tier quick|thorough]    run the registered check for one property
  simctl.py replay <trace>                          re-execute a replay file; exit 1 if it still fails
  simctl.py build [variant ...]                     build simulator variants from $VERIF_REPO (default /repo)

Exit status: 0 = property held on everything explored, 1 = VIOLATION (line printed), 2 = harness error.
Environment: VERIF_SEED (int, default fixed), VERIF_TIER, VERIF_REPO, VERIF_JOBS.
"""
import json, os, re, subprocess, sys, time, hashlib, shutil, tempfile
from concurrent.futures import ThreadPoolExecutor

ROOT = os.path.dirname(os.path.abspath(__file__))
SIM = os.path.join(ROOT, "sim")
REPO = os.environ.get("VERIF_REPO", "/repo")
JOBS = int(os.environ.get("VERIF_JOBS", "16"))
DEFAULT_SEED = 20260926
KNOWN = os.path.join(ROOT, "known_findings.json")
REPLAYS = os.path.join(ROOT, "replays") if REPO == "/repo" else os.path.join("/tmp", "lexsim-replays-" + str(os.getpid()))
EVIDENCE = os.environ.get("VERIF_EVIDENCE_DIR", os.path.join(ROOT, "evidence"))  # override only for scratch-worktree experiments

# ----------------------------------------------------------------------------------------------
# what each property's check runs
#   gated: (variant, runs) — engine G, one fresh process per run
#   miri : (variant, workloads, schedules per workload) — engine M
#   cross: variants whose default-API transcripts are compared run by run (C16)
DEC = ["std", "radix"]
DEC_T = ["std", "radix", "nostd", "pow2", "compact", "radix_compact"]
PLAN = {
    "C01": dict(q=dict(gated=[("std", 6000), ("radix", 6000), ("std_rel", 3000)], miri=("std", 8, 4)),
                t=dict(gated=[(v, 40000) for v in DEC_T] + [("std_rel", 40000)], miri=("std", 48, 8))),
    "C02": dict(q=dict(gated=[("std", 6000), ("radix", 6000), ("compact", 3000)], miri=("std", 8, 4)),
                t=dict(gated=[(v, 40000) for v in DEC_T], miri=("std", 48, 8))),
    "C03": dict(q=dict(gated=[("radix", 10000), ("std", 4000), ("compact", 3000)], miri=("radix", 12, 4)),
                t=dict(gated=[("radix", 60000), ("std", 30000), ("pow2", 30000), ("compact", 30000), ("radix_compact", 30000), ("radix_rel", 40000)], miri=("radix", 64, 8))),
    "C04": dict(q=dict(gated=[("radix", 10000), ("std", 4000), ("compact", 3000)], miri=("std", 12, 4)),
                t=dict(gated=[("radix", 60000), ("std", 30000), ("pow2", 30000), ("compact", 30000), ("radix_compact", 30000), ("radix_rel", 40000)], miri=("std", 64, 8))),
    "C05": dict(q=dict(gated=[("radix", 8000), ("pow2", 4000)], miri=("radix", 8, 4)),
                t=dict(gated=[("radix", 60000), ("pow2", 30000), ("radix_compact", 30000)], miri=("radix", 48, 8))),
    "C06": dict(q=dict(gated=[("pow2", 6000), ("radix", 6000)], miri=("pow2", 12, 4)),
                t=dict(gated=[("pow2", 40000), ("radix", 40000)], miri=("pow2", 48, 8))),
    "C07": dict(q=dict(gated=[("radix", 10000)], miri=("radix", 12, 4)),
                t=dict(gated=[("radix", 60000), ("radix_compact", 30000)], miri=("radix", 48, 8))),
    "C08": dict(q=dict(gated=[("radix", 8000), ("std", 4000)], miri=("radix", 8, 4)),
                t=dict(gated=[("radix", 60000), ("std", 30000), ("pow2", 30000), ("compact", 30000)], miri=("radix", 48, 8))),
    "C09": dict(q=dict(gated=[("radix", 8000), ("std", 5000), ("radix_rel", 4000)], miri=("radix", 12, 4)),
                t=dict(gated=[("radix", 60000), ("std", 30000), ("pow2", 30000), ("compact", 30000), ("radix_compact", 30000), ("radix_rel", 40000), ("std_rel", 20000)], miri=("radix", 64, 8))),
    "C10": dict(q=dict(gated=[("std", 6000), ("radix", 5000), ("std_rel", 4000)], miri=("std", 8, 4)),
                t=dict(gated=[(v, 40000) for v in DEC_T] + [("std_rel", 40000), ("radix_rel", 40000)], miri=("std", 48, 8))),
    "C11": dict(q=dict(gated=[("std", 6000), ("radix", 6000)], miri=("std", 8, 4)),
                t=dict(gated=[(v, 40000) for v in DEC_T], miri=("std", 48, 8))),
    "C15": dict(q=dict(gated=[("std", 6000), ("radix", 4000)], miri=("std", 8, 4)),
                t=dict(gated=[(v, 30000) for v in DEC_T], miri=("std", 32, 8))),
    "C16": dict(q=dict(gated=[], cross=(["std", "nostd", "pow2", "radix", "compact"], 3000), miri=None),
                t=dict(gated=[], cross=(["std", "nostd", "pow2", "radix", "compact", "radix_compact", "format"], 30000), miri=None)),
    "C17": dict(q=dict(gated=[("std", 6000), ("radix", 6000)], miri=("std", 16, 4)),
                t=dict(gated=[(v, 40000) for v in DEC_T], miri=("std", 64, 8))),
    "C19": dict(q=dict(gated=[("std", 6000), ("radix", 6000)], miri=("std", 8, 4)),
                t=dict(gated=[(v, 40000) for v in DEC_T], miri=("std", 32, 8))),
}

COMPONENTS = {
    "real": ["lexical-core", "lexical", "lexical-util", "lexical-parse-integer", "lexical-parse-float",
             "lexical-write-integer", "lexical-write-float (all built from the repository's working tree, unmodified, no hooks)",
             "std::thread workers, std::sync::mpsc, std::panic::catch_unwind"],
    "stub": ["none (the library has no I/O, clock or network to stub); the scheduler of engine G is the simulator's own, "
             "the scheduler of engine M is miri's"],
}


def die(msg):
    print("HARNESS-ERROR: " + msg, file=sys.stderr)
    sys.exit(2)


# ----------------------------------------------------------------------------------------------
# building

REPO_TAG = subprocess.run([os.path.join(SIM, "mkvariant.py"), "--tag"], env=dict(os.environ, VERIF_REPO=REPO),
                          capture_output=True, text=True).stdout.strip()


def binpath(variant):
    return os.path.join(SIM, "target", REPO_TAG, variant, "release", "lexsim-" + variant.replace("_", "-"))


UNBUILDABLE = {}


def build(variants, required=False):
    """Build (or refresh) the given variants from the repository's current working tree, in parallel.
    A feature set that does not compile from this tree cannot be judged: it is skipped (and reported) unless
    every requested variant fails or `required` is set."""
    env = dict(os.environ, VERIF_REPO=REPO, CARGO_NET_OFFLINE="true")
    variants = [v for v in variants if v not in UNBUILDABLE]
    def one(v):
        p = subprocess.run([os.path.join(SIM, "build_variant.sh"), v], env=env, capture_output=True, text=True)
        return v, p
    failed = []
    with ThreadPoolExecutor(max(1, min(len(variants), 7))) as ex:
        for v, p in ex.map(one, variants):
            if p.returncode != 0 or not os.path.exists(binpath(v)):
                failed.append(v)
                UNBUILDABLE[v] = (p.stderr or p.stdout)[-1500:]
    if failed and (required or len(failed) == len(variants)):
        die("building variant(s) %s failed:\n%s" % (", ".join(failed), UNBUILDABLE[failed[0]]))
    for v in failed:
        print("NOTE: feature set '%s' does not build from this tree; it is skipped by this run:\n      %s" % (
            v, UNBUILDABLE[v].strip().splitlines()[-1] if UNBUILDABLE[v].strip() else ""))
    return failed


def miri_env(variant, miri_seed, rate):
    env = dict(os.environ, VERIF_REPO=REPO, CARGO_NET_OFFLINE="true", LEXSIM_VARIANT=variant,
               CARGO_TARGET_DIR=os.path.join(SIM, "target", REPO_TAG, variant),
               MIRIFLAGS="-Zmiri-seed=%d -Zmiri-preemption-rate=%s -Zmiri-disable-isolation" % (miri_seed, rate))
    return env


def miri_cmd(variant, args):
    d = subprocess.run([os.path.join(SIM, "mkvariant.py"), variant], env=dict(os.environ, VERIF_REPO=REPO),
                       capture_output=True, text=True).stdout.strip()
    return d, ["cargo", "+nightly", "miri", "run", "--offline", "-q", "--"] + args


# ----------------------------------------------------------------------------------------------
# running

def last_json(text):
    for line in reversed(text.strip().splitlines()):
        line = line.strip()
        if line.startswith("{") and line.endswith("}"):
            try:
                return json.loads(line)
            except Exception:
                continue
    return None


def crashed_result(variant, seed, focus, extra, rc, stderr):
    """The simulated process itself died (signal / abort) — e.g. a panic inside a thread-local destructor, a
    stack overflow, an allocation failure.  Re-run with the history printed first so that there is a trace."""
    p = subprocess.run([binpath(variant), "gated", "--seed", str(seed), "--focus", focus, "--print-trace"] + list(extra),
                       capture_output=True, text=True)
    lines = [l for l in p.stdout.splitlines() if re.match(r"^T\d+ ", l)]
    af = 1 if "#SWARM alloc_faults=1" in p.stdout else 0
    sw = ([l[len("#SWARM "):].strip() for l in p.stdout.splitlines() if l.startswith("#SWARM ")] or ["alloc_faults=%d" % af])[0]
    why = "the process running the simulated callers died (exit status %d): %s" % (rc, (stderr or "").strip().splitlines()[-1:] or [""])
    return dict(mode="gated", variant=variant, seed=seed, focus=focus, events=len(lines), threads=0, ops={}, faults={"process_abort": 1},
                thread_switches=0, first_uses=0, contended_first_uses=0, repeated_calls=0, alloc_faults=af, swarm=sw, sched_hash="crash", h_parse_and_int="crash",
                h_float_write="crash", records=None, trace=lines,
                violations=[dict(index=len(lines), thread=0, prop="C10", tag="", enc="", op="(whole run)", msg=why),
                            dict(index=len(lines), thread=0, prop=focus, tag="", enc="", op="(whole run)", msg=why)])


def run_gated(variant, seed, focus, extra=()):
    p = subprocess.run([binpath(variant), "gated", "--seed", str(seed), "--focus", focus] + list(extra),
                       capture_output=True, text=True)
    j = last_json(p.stdout)
    if j is None and (p.returncode < 0 or p.returncode > 2):
        return crashed_result(variant, seed, focus, extra, p.returncode, p.stderr)
    if j is None or p.returncode == 2:
        die("lexsim %s gated seed %d: rc=%d, no result\nstdout: %s\nstderr: %s" % (variant, seed, p.returncode, p.stdout[-500:], p.stderr[-1500:]))
    return j


def run_replay_gated(variant, path):
    p = subprocess.run([binpath(variant), "replay", path], capture_output=True, text=True)
    j = last_json(p.stdout)
    if j is None and (p.returncode < 0 or p.returncode > 2):
        prop = None
        for line in open(path):
            m = re.search(r"prop=(C\d+)", line)
            if m:
                prop = m.group(1)
                break
        why = "the process running the simulated callers died (exit status %d)" % p.returncode
        return dict(violations=[dict(prop="C10", tag="", op="(whole run)", msg=why)] +
                    ([dict(prop=prop, tag="", op="(whole run)", msg=why)] if prop and prop != "C10" else []), records=None)
    if j is None or p.returncode == 2:
        die("lexsim %s replay %s: rc=%d\n%s" % (variant, path, p.returncode, p.stderr[-1500:]))
    return j


def load_known():
    if not os.path.exists(KNOWN):
        return []
    return [f for f in json.load(open(KNOWN)).get("findings", []) if f.get("status") == "open"]


def is_known(v, variant, known):
    for f in known:
        if f["property"] == v["prop"] and f["tag"] == v.get("tag", "") and v.get("tag", "") != "" \
                and re.fullmatch(f.get("variants", ".*"), variant):
            return f["id"]
    return None


def counts_for(v, variant, prop):
    """Does violation `v`, observed in build `variant`, violate property `prop`?  Besides the property the simulator
    attributed it to, a float write in a compact build whose output does not read back as the written value is
    C16's own clause ("compact output parses to the same value")."""
    if v["prop"] == prop:
        return True
    if prop == "C16" and "compact" in variant and v["prop"] in ("C02", "C08") and v.get("enc", "").startswith("WFloat ") \
            and ("denotes" in v["msg"] or "parsed back" in v["msg"]):
        return True
    return False


def trace_header(mode, variant, seed, focus, prop, extra=""):
    return "# lexsim trace v1 mode=%s variant=%s seed=%d focus=%s prop=%s %s" % (mode, variant, seed, focus, prop, extra)


def write_trace(path, header, lines):
    os.makedirs(os.path.dirname(path), exist_ok=True)
    with open(path, "w") as f:
        f.write(header.strip() + "\n")
        for l in lines:
            f.write(l + "\n")


def fails_same(variant, header, lines, prop, tag, known):
    """Does this gated history (run in a fresh process) still violate `prop` (same class)?"""
    fd, tmp = tempfile.mkstemp(suffix=".trace", dir=REPLAYS if os.path.isdir(REPLAYS) else None)
    os.close(fd)
    try:
        write_trace(tmp, header, lines)
        j = run_replay_gated(variant, tmp)
    finally:
        os.unlink(tmp)
    for v in j["violations"]:
        if counts_for(v, variant, prop) and v.get("tag", "") == tag and not is_known(v, variant, known):
            return v
    return None


def minimise(variant, header, lines, prop, tag, known, budget_s=60):
    """ddmin over history events: drop chunks while a violation of the same property and class persists."""
    t0 = time.time()
    cur = list(lines)
    n = 2
    while len(cur) >= 2 and time.time() - t0 < budget_s:
        chunk = max(1, len(cur) // n)
        reduced = False
        for i in range(0, len(cur), chunk):
            cand = cur[:i] + cur[i + chunk:]
            if cand and fails_same(variant, header, cand, prop, tag, known):
                cur = cand
                n = max(n - 1, 2)
                reduced = True
                break
            if time.time() - t0 > budget_s:
                break
        if not reduced:
            if chunk == 1:
                break
            n = min(n * 2, len(cur))
    return cur


# ----------------------------------------------------------------------------------------------
# engine M

def miri_build(variant):
    d, cmd = miri_cmd(variant, ["info"])
    p = subprocess.run(cmd, cwd=d, env=miri_env(variant, 0, "0.0"), capture_output=True, text=True)
    if p.returncode != 0:
        die("building variant %s for the interpreter failed:\n%s" % (variant, p.stderr[-3000:]))


def miri_run(variant, trace_path, miri_seed, rate, uninit=False):
    # the workload is fed on standard input: the execution is a function of (file contents, miri seed, rate, uninit)
    # and of nothing else — in particular not of the file's name, which would change how much the program does
    # before the workers start and thereby every later scheduling decision of the interpreter
    d, cmd = miri_cmd(variant, ["free-replay", "-", "--lite"] + (["--uninit"] if uninit else []))
    t0 = time.time()
    with open(trace_path, "rb") as fin:
        p = subprocess.run(cmd, cwd=d, env=miri_env(variant, miri_seed, rate), stdin=fin, capture_output=True)
    p.stdout = p.stdout.decode("utf-8", "replace")
    p.stderr = p.stderr.decode("utf-8", "replace")
    j = last_json(p.stdout)
    ub = None
    if j is None:
        m = re.search(r"error: (Undefined Behavior|unsupported operation|the evaluated program [^\n]*|abnormal termination)[^\n]*", p.stderr)
        if m:
            # the interpreter stopped the program: data race, out-of-bounds, uninitialised read, deadlock, abort...
            ctx = p.stderr[m.start():m.start() + 1200]
            ub = ctx
        else:
            die("interpreter run failed without a result (variant %s, trace %s, miri seed %d):\n%s" % (variant, trace_path, miri_seed, p.stderr[-2000:]))
    return j, ub, time.time() - t0


# ----------------------------------------------------------------------------------------------
# the check

def check(prop, tier):
    if prop not in PLAN:
        die("no check is registered for %s" % prop)
    t_start = time.time()
    base = int(os.environ.get("VERIF_SEED", DEFAULT_SEED)) % (2 ** 62)  # any integer is accepted
    plan = PLAN[prop]["q" if tier == "quick" else "t"]
    known = load_known()
    os.makedirs(REPLAYS, exist_ok=True)
    os.makedirs(EVIDENCE, exist_ok=True)
    print("SEED %d property=%s tier=%s repo=%s" % (base, prop, tier, REPO))

    variants = sorted({v for v, _ in plan.get("gated", [])} | set((plan.get("cross") or ([], 0))[0]))
    skipped = build(variants)
    if skipped:
        plan = dict(plan)
        plan["gated"] = [(v, n) for v, n in plan.get("gated", []) if v not in skipped]
        if plan.get("cross"):
            cv = [v for v in plan["cross"][0] if v not in skipped]
            plan["cross"] = (cv, plan["cross"][1]) if len(cv) >= 2 else None
        if plan.get("miri") and plan["miri"][0] in skipped:
            plan["miri"] = None

    stats = dict(runs=0, ops={}, faults={}, interleavings=set(), nontrivial=set(), events=0, thread_switches=0,
                 first_uses=0, known_hits={}, other_props={}, per_variant={})
    samples = []
    violation = None  # (variant, seed, v, trace_lines)

    def absorb(variant, j):
        stats["runs"] += 1
        stats["events"] += j["events"]
        stats["thread_switches"] += j["thread_switches"]
        stats["first_uses"] += j["first_uses"]
        stats["repeated_calls"] = stats.get("repeated_calls", 0) + j.get("repeated_calls", 0)
        pv = stats["per_variant"].setdefault(variant, dict(runs=0, ops=0))
        pv["runs"] += 1
        for k, n in j["ops"].items():
            stats["ops"][k] = stats["ops"].get(k, 0) + n
            pv["ops"] += n
        for k, n in j["faults"].items():
            stats["faults"][k] = stats["faults"].get(k, 0) + n
        key = (j["threads"], j["sched_hash"])
        stats["interleavings"].add(key)
        if j["threads"] >= 2 and j["thread_switches"] >= 1 and (j["faults"] or j["first_uses"] >= 2):
            stats["nontrivial"].add(key)

    # ---- engine G
    for variant, runs in plan.get("gated", []):
        seeds = [base + i for i in range(runs)]
        with ThreadPoolExecutor(JOBS) as ex:
            for j in ex.map(lambda s: run_gated(variant, s, prop), seeds):
                absorb(variant, j)
                if len(samples) < 3 and j["events"] <= 60:
                    pass
                for v in j["violations"]:
                    kid = is_known(v, variant, known)
                    if kid:
                        stats["known_hits"][kid] = stats["known_hits"].get(kid, 0) + 1
                    elif v["prop"] == prop:
                        if violation is None or j["events"] < violation[4]:
                            violation = (variant, j["seed"], dict(v, _swarm=j.get("swarm") or "alloc_faults=%d" % j.get("alloc_faults", 0)), j["trace"], j["events"])
                    elif v["prop"] == "HARNESS":
                        die("self-check failed in run %s seed %d: %s" % (variant, j["seed"], v["msg"]))
                    else:
                        stats["other_props"][v["prop"]] = stats["other_props"].get(v["prop"], 0) + 1
        if violation:
            break

    # a couple of sample histories for the evidence file (regenerated, printed, not run)
    if plan.get("gated"):
        v0 = plan["gated"][0][0]
        p = subprocess.run([binpath(v0), "gated", "--seed", str(base), "--focus", prop, "--print-trace"], capture_output=True, text=True)
        tl = [l for l in p.stdout.splitlines() if l.startswith("T")]
        samples.append(dict(engine="G", variant=v0, seed=base, first_events=tl[:12], events=len(tl)))

    # ---- cross-build transcript comparison (C16)
    cross_stats = None
    if violation is None and plan.get("cross"):
        cvars, runs = plan["cross"]
        cross_stats = dict(variants=cvars, runs=runs, compared_records=0, hash_mismatch_runs=0)
        seeds = [base + i for i in range(runs)]
        p = subprocess.run([binpath(cvars[0]), "gated", "--seed", str(base), "--focus", prop, "--decimal-only", "--print-trace"],
                           capture_output=True, text=True)
        tl = [l for l in p.stdout.splitlines() if l.startswith("T")]
        j0 = last_json(p.stdout) or {}
        samples.append(dict(engine="G, same decimal-only history run in every build", variants=cvars, seed=base, first_events=tl[:12], events=len(tl),
                            transcript_hash_parse_and_integer_write=j0.get("h_parse_and_int"), transcript_hash_float_write=j0.get("h_float_write")))
        noncompact = [v for v in cvars if "compact" not in v]
        def one(s):
            return s, {v: run_gated(v, s, prop, ["--decimal-only"]) for v in cvars}
        with ThreadPoolExecutor(max(1, JOBS // 2)) as ex:
            for s, res in ex.map(one, seeds):
                for v in cvars:
                    absorb(v, res[v])
                    for vi in res[v]["violations"]:
                        kid = is_known(vi, v, known)
                        if kid:
                            stats["known_hits"][kid] = stats["known_hits"].get(kid, 0) + 1
                        elif vi["prop"] == "HARNESS":
                            die("self-check failed: %s" % vi["msg"])
                        elif counts_for(vi, v, "C16"):
                            # C16's own clause: "compact output parses to the same value" — an ordinary single-build history
                            if violation is None:
                                violation = (v, s, dict(vi, msg="compact build: " + vi["msg"], _swarm=res[v].get("swarm") or "alloc_faults=0"), res[v].get("trace") or [], res[v]["events"])
                        else:
                            stats["other_props"][vi["prop"]] = stats["other_props"].get(vi["prop"], 0) + 1
                ref = res[cvars[0]]
                bad = [v for v in cvars if res[v]["h_parse_and_int"] != ref["h_parse_and_int"]]
                bad += [v for v in noncompact if res[v]["h_float_write"] != res[noncompact[0]]["h_float_write"] and v not in bad]
                if bad:
                    cross_stats["hash_mismatch_runs"] += 1
                    # re-run with per-call records and find the differing calls
                    recs = {v: run_gated(v, s, prop, ["--decimal-only", "--records"]) for v in [cvars[0]] + bad}
                    a = recs[cvars[0]]["records"]
                    for v in bad:
                        b = recs[v]["records"]
                        for i, (ra, rb) in enumerate(zip(a, b)):
                            if ra != rb:
                                is_fw = ra[0].startswith("WFloat")
                                if is_fw and ("compact" in v or "compact" in cvars[0]):
                                    continue  # compact float output may differ in digits; its value is checked per run (C02/C08)
                                diff = dict(prop="C16", tag="", op=ra[0], msg="%s gives %s, %s gives %s" % (cvars[0], ra[1], v, rb[1]))
                                # the one listed way a compact build differs: long near-halfway inputs, one ULP (known finding)
                                cv = v if "compact" in v else cvars[0]
                                if ("compact" in v) != ("compact" in cvars[0]) and ra[0].startswith("PFloat"):
                                    tagged = any(x.get("tag") == "compact-long-near-halfway-1ulp" and x.get("enc") == ra[0]
                                                 for x in res[cv]["violations"])
                                    kf = [k2 for k2 in known if k2["property"] == "C16" and k2["tag"] == "compact-long-near-halfway-1ulp"]
                                    if tagged and kf:
                                        stats["known_hits"][kf[0]["id"]] = stats["known_hits"].get(kf[0]["id"], 0) + 1
                                        continue
                                if violation is None:
                                    violation = (v, s, diff, recs[v]["trace"] or [], res[v]["events"], cvars[0])
                else:
                    cross_stats["compared_records"] += sum(res[cvars[0]]["ops"].get(k, 0) for k in ("PInt", "PFloat", "WInt", "WFloat"))
        if violation and len(violation) == 6:
            # cross-build disagreement: the replay file is the decimal-only history; replay runs it in both builds
            v, s, diff, _, _, v0 = violation
            p = subprocess.run([binpath(v), "gated", "--seed", str(s), "--focus", prop, "--decimal-only", "--print-trace"], capture_output=True, text=True)
            tl = [l for l in p.stdout.splitlines() if l.startswith("T")]
            path = os.path.join(REPLAYS, "%s-cross-%s-vs-%s-%d.trace" % (prop, v0, v, s))
            write_trace(path, trace_header("cross", v, s, prop, prop, "against=%s" % v0), tl)
            finish(prop, tier, base, stats, samples, None, cross_stats, t_start, 1)
            print("violation: %s on %s" % (diff["msg"], diff["op"]))
            print("VIOLATION property=%s replay=%s" % (prop, path))
            return 1

    # ---- engine M
    miri_stats = None
    if violation is None and plan.get("miri"):
        variant, workloads, scheds = plan["miri"]
        build([variant], required=True)
        miri_build(variant)
        miri_stats = dict(variant=variant, workloads=workloads, schedules_per_workload=scheds, runs=0, ops=0,
                          completion_orders=set(), contended_first_uses=0, ub_reports=0, wall_s=0.0,
                          preemption_rates=["0.02", "0.1", "0.3"])
        wdir = tempfile.mkdtemp(prefix="lexsim-miri-", dir=REPLAYS)
        jobs = []
        for w in range(workloads):
            ws = base + w
            threads = 2 + (ws % 3)
            tp = os.path.join(wdir, "w%d.trace" % ws)
            p = subprocess.run([binpath(variant), "gen-free", "--seed", str(ws), "--focus", prop, "--threads", str(threads),
                                "--ops", "5", "--small"], capture_output=True, text=True)
            if p.returncode != 0:
                die("gen-free failed: " + p.stderr[-800:])
            body = [l for l in p.stdout.splitlines() if l.startswith("T")]
            write_trace(tp, trace_header("free", variant, ws, prop, prop, "threads=%d" % threads), body)
            for k in range(scheds):
                ms = (ws * 1000 + k) % (2 ** 31)
                # every other schedule hands the library never-initialised output buffers
                jobs.append((tp, ws, ms, miri_stats["preemption_rates"][k % 3], k % 2 == 1))
        def mrun(job):
            tp, ws, ms, rate, uninit = job
            j, ub, dt = miri_run(variant, tp, ms, rate, uninit)
            return job, j, ub, dt
        with ThreadPoolExecutor(JOBS) as ex:
            for job, j, ub, dt in ex.map(mrun, jobs):
                tp, ws, ms, rate, uninit = job
                miri_stats["runs"] += 1
                miri_stats["runs_with_uninitialised_buffers"] = miri_stats.get("runs_with_uninitialised_buffers", 0) + (1 if uninit else 0)
                miri_stats["wall_s"] += dt
                hit = None
                if ub:
                    miri_stats["ub_reports"] += 1
                    hit = dict(prop=prop, tag="", op="(interpreter stopped the program)", msg=ub.splitlines()[0] + " | " + " ".join(ub.splitlines()[1:6]))
                else:
                    miri_stats["ops"] += j["events"]
                    miri_stats["completion_orders"].add((j["threads"], j["sched_hash"]))
                    miri_stats["contended_first_uses"] += j["contended_first_uses"]
                    for k, n in j["faults"].items():
                        stats["faults"][k] = stats["faults"].get(k, 0) + n
                    for v in j["violations"]:
                        kid = is_known(v, variant, known)
                        if kid:
                            stats["known_hits"][kid] = stats["known_hits"].get(kid, 0) + 1
                        elif v["prop"] == prop and hit is None:
                            hit = v
                        elif v["prop"] == "HARNESS":
                            die("self-check failed under the interpreter: %s" % v["msg"])
                        elif v["prop"] != prop:
                            stats["other_props"][v["prop"]] = stats["other_props"].get(v["prop"], 0) + 1
                if hit and violation is None:
                    lines = [l for l in open(tp).read().splitlines() if l.startswith("T")]
                    violation = ("miri", variant, ws, ms, rate, hit, lines, uninit)
        if len(samples) < 3 and jobs:
            samples.append(dict(engine="M", variant=variant, workload_seed=jobs[0][1], miri_seed=jobs[0][2],
                                per_thread_calls=[l for l in open(jobs[0][0]).read().splitlines() if l.startswith("T")][:12]))
        shutil.rmtree(wdir, ignore_errors=True)
        miri_stats["completion_orders"] = len(miri_stats["completion_orders"])

    # ---- known findings: probe each listed one for this property; say so if it still fails
    for f in load_known():
        if f["property"] != prop:
            continue
        pv = f["probe"]["variant"]
        if pv in UNBUILDABLE or (pv not in variants and build([pv], required=False)) or pv in UNBUILDABLE:
            continue
        tp = os.path.join(ROOT, f["probe"]["trace"])
        j = run_replay_gated(pv, tp)
        still = any(v["prop"] == prop and v.get("tag", "") == f["tag"] for v in j["violations"])
        if f.get("probe", {}).get("cross"):
            other = f["probe"]["cross"]
            if build([other], required=False):
                continue
            a = run_gated_trace_records(pv, tp)
            b = run_gated_trace_records(other, tp)
            still = a != b
        if still:
            print("KNOWN-FINDING: property=%s %s — %s" % (prop, f["id"], f["what"]))

    # ---- verdict
    if violation is None:
        finish(prop, tier, base, stats, samples, miri_stats, cross_stats, t_start, 0)
        print("OK property=%s tier=%s: %d gated runs (%d calls), %s interpreter runs; no violation" % (
            prop, tier, stats["runs"], sum(stats["ops"].values()), miri_stats["runs"] if miri_stats else 0))
        return 0

    if violation[0] == "miri":
        _, variant, ws, ms, rate, hit, lines, uninit = violation
        hdr = trace_header("free", variant, ws, prop, prop, "threads=%d" % len({l.split()[0] for l in lines}))
        path = os.path.join(REPLAYS, "%s-miri-%s-w%d-s%d-r%s-u%d.trace" % (prop, variant, ws, ms, rate, 1 if uninit else 0))
        small = minimise_free(variant, hdr, lines, prop, ms, rate, known, uninit=uninit)
        write_trace(path, hdr, small)
        # replay exactly as a user would; if the minimised workload does not reproduce, keep the original one
        if replay(path, quiet=True) != 1:
            orig_hdr = trace_header("free", variant, ws, prop, prop, "threads=%d" % (2 + (ws % 3)))
            write_trace(path, orig_hdr, lines)
        finish(prop, tier, base, stats, samples, miri_stats, cross_stats, t_start, 1)
        print("violation: %s: %s" % (hit["op"], hit["msg"]))
        print("VIOLATION property=%s replay=%s" % (prop, path))
        return 1

    variant, seed, v, lines, _ = violation[:5]
    hdr = trace_header("gated", variant, seed, prop, prop, v.get("_swarm", "alloc_faults=0"))
    small = minimise(variant, hdr, lines, prop, v.get("tag", ""), known)
    path = os.path.join(REPLAYS, "%s-%s-%d.trace" % (prop, variant, seed))
    write_trace(path, hdr + " original_events=%d" % len(lines), small)
    # confirm in a fresh process
    again = fails_same(variant, hdr, small, prop, v.get("tag", ""), known)
    finish(prop, tier, base, stats, samples, miri_stats, cross_stats, t_start, 1)
    print("violation (variant %s, seed %d, %d-event history minimised to %d): %s: %s" % (
        variant, seed, len(lines), len(small), (again or v)["op"], (again or v)["msg"]))
    print("VIOLATION property=%s replay=%s" % (prop, path))
    return 1


def run_gated_trace_records(variant, path):
    p = subprocess.run([binpath(variant), "replay", path, "--records"], capture_output=True, text=True)
    j = last_json(p.stdout)
    if j is None:
        die("replay with records failed: " + p.stderr[-800:])
    return j["records"]


def minimise_free(variant, hdr, lines, prop, ms, rate, known, budget_s=150, uninit=False):
    """Under the interpreter a shorter workload is a different schedule, so minimisation is a bounded search:
    drop whole threads / trailing calls and keep a candidate only if the same miri seed still fails."""
    t0 = time.time()
    cur = list(lines)
    def fails(cand):
        fd, tmp = tempfile.mkstemp(suffix=".trace", dir=REPLAYS)
        os.close(fd)
        try:
            write_trace(tmp, hdr, cand)
            j, ub, _ = miri_run(variant, tmp, ms, rate, uninit)
        finally:
            os.unlink(tmp)
        if ub:
            return True
        return any(v["prop"] == prop and not is_known(v, variant, known) for v in j["violations"])
    threads = sorted({l.split()[0] for l in cur})
    for t in threads:
        if time.time() - t0 > budget_s or len({l.split()[0] for l in cur}) <= 2:
            break
        cand = [l for l in cur if l.split()[0] != t]
        if cand and fails(cand):
            cur = cand
    changed = True
    while changed and time.time() - t0 < budget_s:
        changed = False
        for t in sorted({l.split()[0] for l in cur}):
            idx = [i for i, l in enumerate(cur) if l.split()[0] == t]
            if len(idx) <= 1:
                continue
            cand = cur[:idx[-1]] + cur[idx[-1] + 1:]
            if fails(cand):
                cur = cand
                changed = True
            if time.time() - t0 > budget_s:
                break
    return cur


def finish(prop, tier, base, stats, samples, miri_stats, cross_stats, t_start, nviol):
    wall = time.time() - t_start
    calls = sum(stats["ops"].values())
    cov = dict(
        evaluations=stats["runs"] + (miri_stats["runs"] if miri_stats else 0),
        distinct_nontrivial=len(stats["nontrivial"]) + (miri_stats["completion_orders"] if miri_stats and isinstance(miri_stats["completion_orders"], int) else 0),
        rule=("one evaluation = one simulated run (engine G: one fresh process executing one seeded history of API calls "
              "on 1-4 worker threads, the simulator choosing who runs each call; engine M: one seeded workload under one "
              "miri scheduler seed). Distinct = distinct (thread count, hash of the sequence of thread ids and fault events "
              "in call-completion order). Non-trivial = at least two workers, at least one switch between workers, and at "
              "least one injected fault or two first uses of a (call kind, type, radix); for engine M every distinct "
              "completion order of a >=2-thread workload counts. Call arguments are drawn from the same seed with a few hot "
              "types/radices/exponent magnitudes per run; they are a workload, not an enumeration of the input space."),
        samples=samples,
        simulated_runs=stats["runs"],
        api_calls=calls,
        calls_by_kind=stats["ops"],
        faults_injected=stats["faults"],
        fault_kinds_available=["caught_panic (library panics at its documented panic points, caught by the caller, run continues)",
                               "short_buffer (caller passes less than the documented size)",
                               "dirty_buffer (reused buffer carries a poison pattern from the previous user)",
                               "thread_death (worker exits, its thread-local state is destroyed, a fresh worker replaces it)",
                               "contended first use (engine M: all workers' first call has the same kind/type/radix)",
                               "uninitialised caller buffer (engine M, every other schedule: a read of a byte the library did not store is an interpreter error)",
                               "options rebuilt in place (custom-NaN parse options are a stack local: same address, different contents)",
                               "repeated call (the same call is re-issued later in the run, possibly on another worker; answers must agree)",
                               "allocator refusal (in a third of fault-enabled runs the global allocator returns null while a worker is inside a parse call; "
                               "the pinned parsers never allocate, so this is only visible — as a process abort — if one starts to)",
                               "options reconfigured in place through the deprecated setters (every other custom-NaN parse)"],
        fault_kinds_not_applicable=["message loss/duplication/reordering, partitions, clock skew, disk errors, torn writes: the library has no "
                                    "network, clock or storage", "allocation failure: aborts the process (handle_alloc_error), nothing to observe"],
        thread_switches=stats["thread_switches"],
        first_uses=stats["first_uses"],
        distinct_interleavings=len(stats["interleavings"]),
        per_variant=stats["per_variant"],
        feature_sets_that_did_not_build=sorted(UNBUILDABLE),
        runs_per_hour=int(stats["runs"] / wall * 3600) if wall > 0 else 0,
        seeds="run i of a variant uses seed base+i, base = %d; %s" % (base, ", ".join("%s: %d..%d" % (v, base, base + d["runs"] - 1) for v, d in sorted(stats["per_variant"].items()))),
        repeated_calls_compared=stats.get("repeated_calls", 0),
        simulated_time="not applicable: the library reads no clock; progress is counted in API calls",
        engine_M=miri_stats,
        cross_build=cross_stats,
        known_finding_hits=stats["known_hits"],
        violations_of_other_properties_seen=stats["other_props"],
        components=COMPONENTS,
        exhaustive=False,
    )
    ev = dict(
        property_id=prop, tier=tier, seed=base, level="exploration", coverage=cov,
        assumptions=[
            "on the pinned tree the library has no shared or cached state, so the schedule dimension is degenerate: a clean run shows that "
            "no dependence on schedule, call history, reused buffer contents or caught panics was observed on the sampled calls, and that "
            "those calls matched the stateless reference model; it does not cover the input space",
            "reference model: schoolbook integer conversion, Rust core's correctly rounded float FromStr and exact {:e}, exact dyadic "
            "midpoint expansions (cross-checked against core on every use)",
            "engine M trusts miri's scheduler to be deterministic per -Zmiri-seed and its data-race/bounds detection",
        ],
        wall_s=round(wall, 2), violations=nviol)
    with open(os.path.join(EVIDENCE, prop + ".json"), "w") as f:
        json.dump(ev, f, indent=1, default=lambda o: sorted(o) if isinstance(o, set) else str(o))


# ----------------------------------------------------------------------------------------------
# replay

def replay(path, quiet=False):
    hdr = {}
    for line in open(path):
        if line.startswith("#"):
            for kv in line[1:].split():
                if "=" in kv:
                    k, v = kv.split("=", 1)
                    hdr[k] = v
    mode, variant, prop = hdr.get("mode", "gated"), hdr.get("variant"), hdr.get("prop")
    if not variant:
        die("trace has no variant= header")
    known = load_known()
    build([variant] + ([hdr["against"]] if mode == "cross" else []))
    if mode == "gated":
        j = run_replay_gated(variant, path)
        bad = [dict(v, prop=prop or v["prop"]) for v in j["violations"]
               if (prop is None or counts_for(v, variant, prop)) and not is_known(v, variant, known)]
    elif mode == "cross":
        a = run_gated_trace_records(hdr["against"], path)
        b = run_gated_trace_records(variant, path)
        bad = [dict(prop=prop, op=x[0], msg="%s gives %s, %s gives %s" % (hdr["against"], x[1], variant, y[1]))
               for x, y in zip(a, b) if x != y and not (x[0].startswith("WFloat") and "compact" in variant + hdr["against"])]
    else:
        # engine M: the interpreter's seed, pre-emption rate and buffer mode are part of the file NAME
        # (…-s<seed>-r<rate>-u<0|1>.trace), not of its contents, which are fed to the program verbatim
        m = re.search(r"-s(\d+)-r([0-9.]+)-u([01])\.trace$", os.path.basename(path))
        if not m:
            die("engine-M replay file name must end in -s<miri seed>-r<rate>-u<0|1>.trace")
        miri_build(variant)
        j, ub, _ = miri_run(variant, os.path.abspath(path), int(m.group(1)), m.group(2), m.group(3) == "1")
        if ub:
            bad = [dict(prop=prop, op="(interpreter stopped the program)", msg=ub[:600])]
        else:
            bad = [v for v in j["violations"] if (prop is None or v["prop"] == prop) and not is_known(v, variant, known)]
    if quiet:
        return 1 if bad else 0
    for v in bad:
        print("violation: %s: %s" % (v["op"], v["msg"]))
    if bad:
        print("VIOLATION property=%s replay=%s" % (bad[0]["prop"], path))
        return 1
    print("replay: no violation")
    return 0


def main():
    a = sys.argv[1:]
    if not a:
        print(__doc__)
        return 2
    if a[0] == "check":
        tier = os.environ.get("VERIF_TIER", "quick")
        if "--tier" in a:
            tier = a[a.index("--tier") + 1]
        return check(a[1], tier)
    if a[0] == "replay":
        return replay(a[1])
    if a[0] == "setup":
        # everything the quick tier needs, built once from files on disk
        build(["std", "nostd", "pow2", "radix", "compact", "std_rel", "radix_rel"])
        for v in ("std", "radix", "pow2"):
            miri_build(v)
        print("setup: simulator variants built (native: std nostd pow2 radix compact std_rel radix_rel; interpreter: std radix pow2)")
        return 0
    if a[0] == "build":
        build(a[1:] or ["std", "nostd", "pow2", "radix", "compact"])
        return 0
    print(__doc__)
    return 2


if __name__ == "__main__":
    sys.exit(main())
